import TfPwaV.Proofs.AmpMix
/-!
Helper lemmas for `Props/C01f`: the identical-particle terms of the executable amplitude model (`groupAmp2`, `density2` of
`templates/Amp.lean.in`, ℝ instance).

* `Hel.perm` with the exchange `swapIds p q` of two particle ids;
* the nested helicity sum `sumOverR` over index lists that contain `p` and `q` with the SAME helicity list is invariant under the
  transposition of the two indices (`sumOverR_swap`).
-/
open BigOperators
open TfPwaV.ScalarR
namespace TfPwaV.AmpR
open TfPwaV.LineShapeR

theorem swapIds_invol (p q r : Nat) : swapIds p q (swapIds p q r) = r := by
  unfold swapIds
  by_cases h1 : r = p
  · subst h1
    by_cases h2 : q = r
    · simp [h2]
    · simp [h2]
  · by_cases h2 : r = q
    · subst h2; simp
    · simp [h1, h2]

theorem Hel.perm_perm_swap (h : Hel) (p q : Nat) : (h.perm (swapIds p q)).perm (swapIds p q) = h := by
  funext r
  unfold Hel.perm
  rw [swapIds_invol]

/-- transposing the indices of `p` and `q` in a configuration where both have been set -/
theorem Hel.perm_swap_set (e : Hel) (p q : Nat) (hpq : p ≠ q) (l m : Int) :
    ((e.set q m).set p l).perm (swapIds p q) = (e.set p m).set q l := by
  funext r
  unfold Hel.perm Hel.set swapIds
  by_cases h1 : r = p
  · subst h1
    have : ¬ q = r := fun h => hpq h.symm
    simp [hpq, this]
  · by_cases h2 : r = q
    · subst h2
      simp
    · simp [h1, h2]

/-- **transposition of two indices with equal helicity lists leaves the nested helicity sum unchanged**: for every summand
`φ`, index lists `pre ++ (p,R) :: mid ++ (q,R) :: post` (`p ≠ q`, neither occurs again after its own entry) -/
theorem sumOverR_swap (φ : Hel → ℝ) (p q : Nat) (hpq : p ≠ q) (R : List Int) (pre mid post : List (Nat × List Int))
    (hp : p ∉ (mid ++ (q, R) :: post).map Prod.fst) (hq : q ∉ post.map Prod.fst) (h0 : Hel) :
    sumOverR (pre ++ (p, R) :: (mid ++ (q, R) :: post)) (fun x => φ (x.perm (swapIds p q))) h0
      = sumOverR (pre ++ (p, R) :: (mid ++ (q, R) :: post)) φ h0 := by
  rw [sumOverR_append, sumOverR_append]
  apply sumOverR_congr
  intro h1
  simp only [sumOverR]
  rw [sumOverR_set_comm _ _ p hp, sumOverR_set_comm _ _ p hp, sumOverR_append, sumOverR_append]
  apply sumOverR_congr
  intro h2
  simp only [sumOverR]
  rw [sumOverR_set_comm _ _ q hq, sumOverR_set_comm _ _ q hq]
  apply sumOverR_congr
  intro e
  simp only [rsum_eq]
  rw [list_sum_comm]
  congr 1
  apply List.map_congr_left
  intro l _
  congr 1
  apply List.map_congr_left
  intro m _
  rw [Hel.perm_swap_set e p q hpq l m, Hel.set_comm e p q hpq m l]

end TfPwaV.AmpR
