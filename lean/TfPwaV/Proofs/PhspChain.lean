import TfPwaV.Proofs.PhspShell
/-! Helper lemmas for C10 (part d): the momenta `generate_momentum` returns have positive energy, so the output of
every node's generator satisfies `GoodNode` — the hypothesis of `chain_structure` — and the nested-chain theorems
hold for the composition `_restruct_pi ∘ (generate_momentum per node)`. -/
open TfPwaV.ScalarR
namespace TfPwaV.PhspR
open TfPwaV.KinR

/-- the energy of a time-like or light-like vector with positive energy stays positive under any boost `|v| < 1` -/
theorem boost_energy_pos (p : V4) (v : V3) (h2 : v.norm2 < 1) (hE : 0 < p.t) (hm : 0 ≤ p.m2) :
    0 < (p.boost v).t := by
  have hpos : 0 < 1 - v.norm2 := by linarith
  have hg : 0 < gammaOf v.norm2 := by
    unfold gammaOf ksqrt
    have := Real.sqrt_pos.mpr hpos
    positivity
  simp only [V4.boost]
  apply mul_pos hg
  simp only [V3.dot, V4.vect]
  simp only [V4.m2, V4.dot] at hm
  simp only [V3.norm2] at h2 hpos
  by_contra hcon
  have hle : p.t + (v.x * p.x + v.y * p.y + v.z * p.z) ≤ 0 := not_lt.mp hcon
  set a := v.x * p.x + v.y * p.y + v.z * p.z with ha
  have hCS : a * a ≤ (v.x * v.x + v.y * v.y + v.z * v.z) * (p.x * p.x + p.y * p.y + p.z * p.z) := by
    rw [ha]
    nlinarith [sq_nonneg (v.x * p.y - v.y * p.x), sq_nonneg (v.y * p.z - v.z * p.y), sq_nonneg (v.z * p.x - v.x * p.z)]
  have haE : p.t * p.t ≤ a * a := by nlinarith
  have hv0 : 0 ≤ v.x * v.x + v.y * v.y + v.z * v.z := by nlinarith [mul_self_nonneg v.x, mul_self_nonneg v.y, mul_self_nonneg v.z]
  have hp2 : p.x * p.x + p.y * p.y + p.z * p.z ≤ p.t * p.t := by linarith
  have h3 : (v.x * v.x + v.y * v.y + v.z * v.z) * (p.x * p.x + p.y * p.y + p.z * p.z)
      ≤ (v.x * v.x + v.y * v.y + v.z * v.z) * (p.t * p.t) := mul_le_mul_of_nonneg_left hp2 hv0
  have h4 : 0 < (1 - (v.x * v.x + v.y * v.y + v.z * v.z)) * (p.t * p.t) := mul_pos hpos (mul_pos hE hE)
  nlinarith

/-- physical four-momentum: positive energy, non-negative invariant mass squared -/
def Phys (p : V4) : Prop := 0 < p.t ∧ 0 ≤ p.m2

/-- the break-up momentum of the first two-body step (`M_1 → r_0 r_1`, or `m0 → r_0 r_1` for a two-body decay) -/
noncomputable def firstQ (m0 mp : ℝ) : List ℝ → List ℝ → ℝ
  | m :: _, r :: _ => getP m mp r
  | [], r :: _ => getP m0 mp r
  | _, _ => 0

/-- the first two-body step produces no zero four-vector (`q > 0`, or both daughters massive) -/
def FirstOK (m0 mp : ℝ) (ms rs : List ℝ) : Prop :=
  0 < firstQ m0 mp ms rs * firstQ m0 mp ms rs + rs.headD 0 * rs.headD 0 ∧
    0 < firstQ m0 mp ms rs * firstQ m0 mp ms rs + mp * mp

section step
variable (M mp r u1 u2 : ℝ) (hu0 : 0 ≤ u1) (hu1 : u1 ≤ 1)
include hu0 hu1

/-- one two-body step keeps every momentum physical -/
theorem momStep_phys (pl : List V4) (hpl : ∀ p ∈ pl, Phys p)
    (hnewE : 0 < getP M mp r * getP M mp r + r * r)
    (hreg : (pl = [] ∧ 0 < getP M mp r * getP M mp r + mp * mp) ∨
      (0 < mp ∧ eps * (getP M mp r * getP M mp r + mp * mp) < getP M mp r * getP M mp r)) :
    ∀ p ∈ momStep mp r (getP M mp r) u1 u2 pl, Phys p := by
  have hdir := dir_norm (getP M mp r) u1 (2 * Real.pi * u2) hu0 hu1
  have hnew : Phys ⟨ksqrt (getP M mp r * getP M mp r + r * r),
      getP M mp r * ksqrt (1 - (2 * u1 - 1) * (2 * u1 - 1)) * kcos (2 * kpi * u2),
      getP M mp r * ksqrt (1 - (2 * u1 - 1) * (2 * u1 - 1)) * ksin (2 * kpi * u2),
      getP M mp r * (2 * u1 - 1)⟩ := by
    constructor
    · simp only [ksqrt]; exact Real.sqrt_pos.mpr hnewE
    · simp only [V4.m2, V4.dot, ksqrt, kcos, ksin, kpi]
      rw [Real.mul_self_sqrt hnewE.le]
      nlinarith [mul_self_nonneg r]
  rcases hreg with ⟨hnil, hrecE⟩ | ⟨hmpos, hreg⟩
  · subst hnil
    intro p hp
    simp only [momStep, List.isEmpty_nil, if_true, List.map_nil, List.append_nil, List.mem_cons, List.not_mem_nil, or_false] at hp
    rcases hp with hp | hp
    · rw [hp]; exact hnew
    · rw [hp]
      constructor
      · simp only [V4.neg, ksqrt]; exact Real.sqrt_pos.mpr hrecE
      · simp only [V4.m2, V4.dot, V4.neg, ksqrt, kcos, ksin, kpi]
        rw [Real.mul_self_sqrt hrecE.le]
        nlinarith [mul_self_nonneg mp]
  · set pb : V4 := ⟨ksqrt (getP M mp r * getP M mp r + mp * mp),
      getP M mp r * ksqrt (1 - (2 * u1 - 1) * (2 * u1 - 1)) * kcos (2 * kpi * u2),
      getP M mp r * ksqrt (1 - (2 * u1 - 1) * (2 * u1 - 1)) * ksin (2 * kpi * u2),
      getP M mp r * (2 * u1 - 1)⟩ with hpb
    have hq2pos : 0 < getP M mp r * getP M mp r + mp * mp := by nlinarith [mul_self_nonneg (getP M mp r)]
    have hv : pb.boostVector.neg.norm2 = getP M mp r * getP M mp r / (getP M mp r * getP M mp r + mp * mp) := by
      rw [norm2_neg]
      simp only [hpb, V4.boostVector, V3.norm2, ksqrt, kcos, ksin, kpi]
      have hs := Real.mul_self_sqrt hq2pos.le
      rw [div_mul_div_comm, div_mul_div_comm, div_mul_div_comm, hs, ← add_div, ← add_div, hdir]
    have hv1 : eps < pb.boostVector.neg.norm2 := by
      rw [hv, lt_div_iff₀ hq2pos]; exact hreg
    have hv2 : pb.boostVector.neg.norm2 < 1 := by
      rw [hv, div_lt_one hq2pos]; nlinarith
    intro p hp
    by_cases hemp : pl.isEmpty = true
    · have : pl = [] := List.isEmpty_iff.mp hemp
      subst this
      -- first step with a positive previous mass: same as the first branch
      simp only [momStep, List.isEmpty_nil, if_true, List.map_nil, List.append_nil, List.mem_cons, List.not_mem_nil, or_false] at hp
      rcases hp with hp | hp
      · rw [hp]; exact hnew
      · rw [hp]
        constructor
        · simp only [V4.neg, ksqrt]; exact Real.sqrt_pos.mpr hq2pos
        · simp only [V4.m2, V4.dot, V4.neg, ksqrt, kcos, ksin, kpi]
          rw [Real.mul_self_sqrt hq2pos.le]
          nlinarith [mul_self_nonneg mp]
    · have hne : pl.isEmpty = false := by simpa using hemp
      simp only [momStep, hne, Bool.false_eq_true, if_false, List.nil_append, List.mem_cons, List.mem_map] at hp
      rcases hp with hp | ⟨x, hx, hp⟩
      · rw [hp]; exact hnew
      · obtain ⟨hxE, hxm⟩ := hpl x hx
        rw [← hp]
        constructor
        · exact boost_energy_pos x _ hv2 hxE hxm
        · simp only [V4.m2, V4.restVector] at hxm ⊢
          rw [TfPwaV.C11.boost_minkowski _ _ _ hv1 hv2]
          exact hxm

end step

theorem genMomAux_phys (m0 : ℝ) : ∀ (ms rs : List ℝ) (us : List (ℝ × ℝ)) (mp : ℝ) (py first : Bool) (pl : List V4),
    RegChain m0 mp first ms rs → us.length = rs.length → (∀ u ∈ us, 0 ≤ u.1 ∧ u.1 ≤ 1) →
    (first = true → pl = [] ∧ FirstOK m0 mp ms rs) → (∀ p ∈ pl, Phys p) →
    ∀ p ∈ genMomAux id m0 mp py ms rs us pl, Phys p := by
  intro ms
  induction ms with
  | nil =>
    intro rs us mp py first pl hreg hlen hu hf1 hpl
    match rs, hreg with
    | [r], hreg =>
      match us, hlen with
      | [u], _ =>
        have hq : (if py then getPpy id m0 mp r else getPm id m0 mp r) = getP m0 mp r := by
          cases py <;> simp [getPpy_id, getPm_id]
        simp only [genMomAux, hq]
        apply momStep_phys m0 mp r u.1 u.2 (hu u (by simp)).1 (hu u (by simp)).2 pl hpl
        · rcases hreg with h | h
          · have := (hf1 h).2.1
            simpa [firstQ] using this
          · nlinarith [h.2, mul_self_nonneg r, eps_pos, mul_self_nonneg (getP m0 mp r), mul_self_nonneg mp]
        · rcases hreg with h | h
          · left
            refine ⟨(hf1 h).1, ?_⟩
            have := (hf1 h).2.2
            simpa [firstQ] using this
          · right; exact h
  | cons m ms' ih =>
    intro rs us mp py first pl hreg hlen hu hf1 hpl
    match rs, hreg with
    | r :: rs', hreg =>
      obtain ⟨hreg1, hreg'⟩ := hreg
      match us, hlen with
      | u :: us', hlen =>
        simp only [genMomAux]
        apply ih rs' us' m false false _ hreg' (by simpa using hlen) (fun x hx => hu x (by simp [hx])) (by simp)
        apply momStep_phys m mp r u.1 u.2 (hu u (by simp)).1 (hu u (by simp)).2 pl hpl
        · rcases hreg1 with h | h
          · have := (hf1 h).2.1
            simpa [firstQ] using this
          · nlinarith [h.2, mul_self_nonneg r, eps_pos, mul_self_nonneg (getP m mp r), mul_self_nonneg mp]
        · rcases hreg1 with h | h
          · left
            refine ⟨(hf1 h).1, ?_⟩
            have := (hf1 h).2.2
            simpa [firstQ] using this
          · right; exact h

/-- `generate_momentum`: every returned momentum has positive energy -/
theorem generateMomentum_energy (m0 : ℝ) (mass ms : List ℝ) (us : List (ℝ × ℝ))
    (hreg : RegChain m0 (mass.reverse.headD 0) true ms (mass.reverse.drop 1))
    (hfirst : FirstOK m0 (mass.reverse.headD 0) ms (mass.reverse.drop 1))
    (hlen : us.length + 1 = mass.length) (hu : ∀ u ∈ us, 0 ≤ u.1 ∧ u.1 ≤ 1) :
    ∀ p ∈ generateMomentum id m0 mass ms us, 0 < p.t := by
  intro p hp
  unfold generateMomentum at hp
  have hl : us.length = (mass.reverse.drop 1).length := by
    simp only [List.length_drop, List.length_reverse]; omega
  exact (genMomAux_phys m0 ms _ us _ true true [] hreg hl hu (fun _ => ⟨rfl, hfirst⟩) (by simp) p hp).1

theorem forall₂_and {α β : Type} {R S : α → β → Prop} : ∀ {a : List α} {b : List β},
    List.Forall₂ R a b → List.Forall₂ S a b → List.Forall₂ (fun x y => R x y ∧ S x y) a b := by
  intro a b h1
  induction h1 with
  | nil => intro _; exact List.Forall₂.nil
  | cons h _ ih =>
    intro h2
    cases h2 with
    | cons g gs => exact List.Forall₂.cons ⟨h, g⟩ (ih gs)

theorem forall₂_flip_map : ∀ (ch : List MTree) (l : List V4), List.Forall₂ OnShell l (ch.map MTree.mass) →
    List.Forall₂ (fun c p => OnShell p c.mass) ch l
  | [], l, h => by cases h; exact List.Forall₂.nil
  | c :: cs, l, h => by
    cases h with
    | cons h1 h2 => exact List.Forall₂.cons h1 (forall₂_flip_map cs _ h2)

theorem forall₂_zipWith {α β γ : Type} {P : α → β → Prop} {Q : α → γ → Prop} (f : α → β → γ)
    (hf : ∀ x y, P x y → Q x (f x y)) : ∀ {a : List α} {b : List β}, List.Forall₂ P a b →
    List.Forall₂ Q a (List.zipWith f a b) := by
  intro a b h
  induction h with
  | nil => exact List.Forall₂.nil
  | cons h _ ih => exact List.Forall₂.cons (hf _ _ h) ih

end TfPwaV.PhspR
