import TfPwaV.Proofs.Wigner
import TfPwaV.Proofs.ZHom
/-!
Tie between the code's small-d weights (`Wigner.zCoef`, the integer form of `small_d_weight`, kernel-tied to `dR`)
and the generic coefficient matrices `ZHom.Zc`:  `Σ_l zCoef(N,im,in,l) s^l c^(N-l) = Zc c (-s) s c N im in`,
i.e. the rational part of `d^j_{mn}(β)` is the coefficient of `X^in` in `(cX - s)^im (sX + c)^(N-im)`.  Every `N`.
-/
open Finset BigOperators
namespace TfPwaV.Wigner
open TfPwaV.ZHom

theorem evalH_map_range' (f : ℕ → ℤ) (a n : ℕ) (s c : ℝ) :
    evalH ((List.range' a n).map f) s c = ∑ i ∈ range n, (f (a + i) : ℝ) * s ^ i * c ^ (n - 1 - i) := by
  induction n generalizing a with
  | zero => simp [evalH]
  | succ n ih =>
    rw [List.range'_succ, List.map_cons, evalH, ih, Finset.sum_range_succ', Finset.mul_sum]
    simp only [List.length_map, List.length_range', add_zero, pow_zero, mul_one]
    rw [add_comm]
    congr 1
    · refine Finset.sum_congr rfl fun i hi => ?_
      have : i < n := mem_range.mp hi
      have e : n + 1 - 1 - (i + 1) = n - 1 - i := by omega
      rw [e, show a + 1 + i = a + (i + 1) by omega]
      ring

theorem evalH_zPoly (N im inn : ℕ) (s c : ℝ) :
    evalH (zPoly N im inn) s c = ∑ l ∈ range (N + 1), (zCoef N im inn l : ℝ) * s ^ l * c ^ (N - l) := by
  unfold zPoly
  rw [List.range_eq_range', evalH_map_range']
  refine Finset.sum_congr rfl fun i _ => ?_
  simp

theorem choose_eq (n k : ℕ) : choose n k = Nat.choose n k := by
  induction n generalizing k with
  | zero => cases k <;> simp [choose]
  | succ n ih => cases k <;> simp [choose, ih, Nat.choose_succ_succ]

theorem negOnePow_cast (n : ℕ) : ((negOnePow n : ℤ) : ℝ) = (-1) ^ n := by
  unfold negOnePow
  rcases Nat.even_or_odd n with h | h
  · rw [if_pos (Nat.even_iff.mp h), h.neg_one_pow]; simp
  · rw [if_neg (by rw [Nat.odd_iff] at h; omega), h.neg_one_pow]; simp

/-- the common form: a sum over `k` (the index of `C(N-im,k)`) -/
noncomputable def gTerm (N im inn k : ℕ) (s c : ℝ) : ℝ :=
  if k ≤ inn ∧ inn ≤ k + im then
    (-1) ^ (k + im - inn) * ((N - im).choose k : ℝ) * (im.choose (inn - k) : ℝ) *
      s ^ (2 * k + im - inn) * c ^ (N - (2 * k + im - inn))
  else 0

theorem zCoef_as_sum (N im inn l : ℕ) (him : im ≤ N) (hinn : inn ≤ N) :
    (zCoef N im inn l : ℝ) = ∑ k ∈ range (N - im + 1),
      if k ≤ inn ∧ inn ≤ k + im ∧ l + inn = 2 * k + im then
        (-1) ^ (k + im - inn) * ((N - im).choose k : ℝ) * (im.choose (inn - k) : ℝ) else 0 := by
  unfold zCoef
  by_cases h1 : im ≤ N ∧ inn ≤ N ∧ im ≤ l + inn ∧ (l + inn - im) % 2 = 0
  · rw [if_pos h1]
    obtain ⟨_, _, h3, h4⟩ := h1
    simp only
    set k0 := (l + inn - im) / 2 with hk0
    have hk0' : l + inn = 2 * k0 + im := by omega
    by_cases h2 : k0 + im ≤ N ∧ k0 ≤ inn ∧ inn ≤ k0 + im
    · rw [if_pos h2]
      rw [Finset.sum_eq_single k0]
      · rw [if_pos ⟨h2.2.1, h2.2.2, hk0'⟩]
        push_cast
        rw [negOnePow_cast, choose_eq, choose_eq]
        ring
      · intro k _ hk
        rw [if_neg]; intro ⟨_, _, h⟩; omega
      · intro h; exact absurd (mem_range.mpr (by omega)) h
    · rw [if_neg h2]
      push_cast
      symm
      refine Finset.sum_eq_zero fun k hk => ?_
      rw [if_neg]
      intro ⟨a, b, c⟩
      have : k = k0 := by omega
      subst this
      have := mem_range.mp hk
      exact h2 ⟨by omega, a, b⟩
  · rw [if_neg h1]
    push_cast
    symm
    refine Finset.sum_eq_zero fun k hk => ?_
    rw [if_neg]
    intro ⟨a, b, c⟩
    apply h1
    refine ⟨him, hinn, by omega, by omega⟩

theorem evalH_zPoly_g (N im inn : ℕ) (him : im ≤ N) (hinn : inn ≤ N) (s c : ℝ) :
    evalH (zPoly N im inn) s c = ∑ k ∈ range (N - im + 1), gTerm N im inn k s c := by
  rw [evalH_zPoly]
  simp_rw [zCoef_as_sum N im inn _ him hinn, Finset.sum_mul]
  rw [Finset.sum_comm]
  refine Finset.sum_congr rfl fun k hk => ?_
  have hk' : k ≤ N - im := by have := mem_range.mp hk; omega
  unfold gTerm
  by_cases h : k ≤ inn ∧ inn ≤ k + im
  · rw [if_pos h]
    rw [Finset.sum_eq_single (2 * k + im - inn)]
    · rw [if_pos ⟨h.1, h.2, by omega⟩]
    · intro l _ hl
      rw [if_neg (by intro ⟨_, _, e⟩; omega)]; ring
    · intro hh; exact absurd (mem_range.mpr (by omega)) hh
  · rw [if_neg h]
    refine Finset.sum_eq_zero fun l _ => ?_
    rw [if_neg (by intro ⟨a, b, _⟩; exact h ⟨a, b⟩)]; ring

theorem Zc_g (N im inn : ℕ) (him : im ≤ N) (hinn : inn ≤ N) (s c : ℝ) :
    Zc c (-s) s c N im inn = ∑ k ∈ range (N - im + 1), gTerm N im inn k s c := by
  unfold Zc
  rw [Finset.sum_comm]
  refine Finset.sum_congr rfl fun k hk => ?_
  have hk' : k ≤ N - im := by have := mem_range.mp hk; omega
  unfold gTerm
  by_cases h : k ≤ inn ∧ inn ≤ k + im
  · rw [if_pos h, Finset.sum_eq_single (inn - k)]
    · rw [if_pos (by omega)]
      have e1 : im - (inn - k) = k + im - inn := by omega
      have e2 : 2 * k + im - inn = (k + im - inn) + k := by omega
      have e3 : N - (k + im - inn + k) = (inn - k) + (N - im - k) := by omega
      rw [e1, e2, e3, neg_pow, pow_add, pow_add]
      ring
    · intro i _ hi
      rw [if_neg (by omega)]
    · intro hh; exact absurd (mem_range.mpr (by omega)) hh
  · rw [if_neg h]
    refine Finset.sum_eq_zero fun i hi => ?_
    have := mem_range.mp hi
    rw [if_neg (by omega)]

/-- **the code's weights are the polynomial-representation coefficients of the rotation `[[c,-s],[s,c]]`**, every N -/
theorem evalH_zPoly_eq_Zc (N im inn : ℕ) (him : im ≤ N) (hinn : inn ≤ N) (s c : ℝ) :
    evalH (zPoly N im inn) s c = Zc c (-s) s c N im inn := by
  rw [evalH_zPoly_g N im inn him hinn, Zc_g N im inn him hinn]

end TfPwaV.Wigner
