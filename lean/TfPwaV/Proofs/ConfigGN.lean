import TfPwaV.Proofs.ConfigG
/-! Helper lemmas for C19g: sources of the parameter names (core Lean only). -/
namespace TfPwaV.ConfigD
open TfPwaV.Config

theorem addNew_nodup (l : List String) (acc : List String) (h : acc.Nodup) :
    (l.foldl (fun acc n => if acc.contains n then acc else acc ++ [n]) acc).Nodup := by
  induction l generalizing acc with
  | nil => exact h
  | cons n ns ih =>
    simp only [List.foldl_cons]
    apply ih
    split
    · exact h
    · rename_i hn
      rw [List.nodup_append]
      refine ⟨h, by simp, ?_⟩
      intro a ha b hb
      simp only [List.mem_singleton] at hb
      subst hb
      intro e
      subst e
      apply hn
      simpa using ha

/-- `DecayGroup.resonances` lists every resonance once -/
theorem resonances_nodup (chains : List Chain) : (resonances chains).Nodup := by
  unfold resonances
  have : ∀ acc : List Name, acc.Nodup → (chains.foldl (fun acc c =>
      (sortNames (chainInner c)).foldl (fun acc n => if acc.contains n then acc else acc ++ [n]) acc) acc).Nodup := by
    induction chains with
    | nil => intro acc h; exact h
    | cons c cs ih =>
      intro acc h
      simp only [List.foldl_cons]
      exact ih _ (addNew_nodup _ _ h)
  exact this [] (by simp)

theorem addNewDecay_pairwise (l : List BDecay) (acc : List BDecay) (h : acc.Pairwise fun a b => a.same b = false) :
    (l.foldl (fun acc d => if acc.any (fun e => e.same d) then acc else acc ++ [d]) acc).Pairwise fun a b => a.same b = false := by
  induction l generalizing acc with
  | nil => exact h
  | cons d ds ih =>
    simp only [List.foldl_cons]
    apply ih
    split
    · exact h
    · rename_i hn
      rw [List.pairwise_append]
      refine ⟨h, by simp, ?_⟩
      intro a ha b hb
      simp only [List.mem_singleton] at hb
      subst hb
      have := List.any_eq_false.1 (by simpa using hn) a ha
      simpa using this

/-- the decay objects that create `g_ls` variables are pairwise different decays -/
theorem seenDecays_pairwise (chains : List Chain) : (seenDecays chains).Pairwise fun a b => a.same b = false := by
  unfold seenDecays
  exact addNewDecay_pairwise _ _ List.Pairwise.nil

theorem mapM_congr {α β : Type} (f g : α → Option β) (l : List α) (h : ∀ a ∈ l, f a = g a) : l.mapM f = l.mapM g := by
  induction l with
  | nil => rfl
  | cons a as ih =>
    simp only [List.mapM_cons]
    rw [h a (by simp), ih (fun b hb => h b (by simp [hb]))]

theorem shape_congr (x y : CtxD) (chains : List Chain) (hres : ∀ n ∈ resonances chains, x.resNames n = y.resNames n)
    (hd : ∀ c ∈ chains, ∀ d ∈ c, x.headOf d = y.headOf d ∧ (x.ls d).length = (y.ls d).length) :
    x.shape chains = y.shape chains := by
  unfold CtxD.shape
  rw [mapM_congr _ _ _ hres]
  have : (chains.map fun c => (x.chainHead c, c.map fun d => (d, x.headOf d, (x.ls d).length))) =
      (chains.map fun c => (y.chainHead c, c.map fun d => (d, y.headOf d, (y.ls d).length))) := by
    apply List.map_congr_left
    intro c hc
    have h1 : x.chainHead c = y.chainHead c := by
      unfold CtxD.chainHead
      rw [List.map_congr_left (fun d hd' => (hd c hc d hd').1)]
    have h2 : (c.map fun d => (d, x.headOf d, (x.ls d).length)) = (c.map fun d => (d, y.headOf d, (y.ls d).length)) := by
      apply List.map_congr_left
      intro d hd'
      rw [(hd c hc d hd').1, (hd c hc d hd').2]
    rw [h1, h2]
  rw [this]

end TfPwaV.ConfigD
