import TfPwaV.Proofs.Amp
import TfPwaV.Proofs.UnitaryMix
/-!
Helper lemmas for `Props/C01e`: unitary mixing of a FINAL-STATE helicity index of the executable amplitude-tensor model
(`templates/Amp.lean.in`, `K = ℝ`) through the alignment D-functions.

* helicity configurations: `Hel.set` overrides / commutes; a contraction `sumOver L` does not see the start value of a
  contracted particle (`sumOver_set_of_mem`);
* `Chain.ampWith` is linear in the COLUMN `Dal A · (ext f)` of the alignment D-function of the final particle `f`, provided
  the chain has exactly one alignment D-function for `f` and contracts the unprimed helicity of `f`
  (`ampWith_final_mix`, `aligns_prod_mix`, `chain_final_mix`);
* the nested helicity sum `sumOverR` of the density: the sum over one final particle can be moved innermost
  (`sumOverR_append`, `sumOverR_set_comm`), where `UnitaryMix.unitary_mix` applies (`densityWith_final_mix`);
* `mkD` for an arbitrary row helicity (`mkD_row_eq`, `mkD_row_zero`, `toC_mkD_hel2`).
-/
open BigOperators Matrix
open TfPwaV.ScalarR
namespace TfPwaV.AmpR
open TfPwaV.LineShapeR TfPwaV.SpinlessR TfPwaV.Wigner TfPwaV.FrameAlg TfPwaV.UnitaryMix

/-! ### helicity configurations -/

theorem Hel.set_set (h : Hel) (p : Nat) (x y : Int) : (h.set p x).set p y = h.set p y := by
  funext q
  unfold Hel.set
  split_ifs <;> rfl

theorem Hel.set_comm (h : Hel) (p q : Nat) (hpq : p ≠ q) (x y : Int) :
    (h.set p x).set q y = (h.set q y).set p x := by
  funext r
  unfold Hel.set
  by_cases h1 : r = q
  · subst h1
    have h2 : r ≠ p := fun hh => hpq hh.symm
    simp [h2]
  · by_cases h2 : r = p
    · subst h2
      simp [h1]
    · simp [h1, h2]

theorem Hel.set_apply_self (h : Hel) (p : Nat) (x : Int) : (h.set p x) p = x := by
  unfold Hel.set; simp

theorem Hel.set_apply_ne (h : Hel) (p q : Nat) (x : Int) (hq : q ≠ p) : (h.set p x) q = h q := by
  unfold Hel.set; simp [hq]

/-- a contraction does not depend on the start value of a contracted particle -/
theorem sumOver_set_of_mem (L : List (Nat × List Int)) (f : Hel → Cx) (p : Nat) (hp : p ∈ L.map Prod.fst)
    (h : Hel) (x : Int) : sumOver L f (h.set p x) = sumOver L f h := by
  induction L generalizing h with
  | nil => simp at hp
  | cons a r ih =>
    simp only [sumOver]
    congr 1
    apply List.map_congr_left
    intro l _
    by_cases hap : a.1 = p
    · rw [← hap, Hel.set_set]
    · have hp' : p ∈ r.map Prod.fst := by
        simp only [List.map_cons, List.mem_cons] at hp
        rcases hp with hp | hp
        · exact absurd hp.symm hap
        · exact hp
      rw [Hel.set_comm h p a.1 (Ne.symm hap) x l, ih hp']

/-! ### linearity of the group amplitude from linearity of the chains -/

theorem csum_lin {ι : Type} (s : Finset ι) (u : ι → ℂ) (cs : List Chain) (F' : Chain → Cx) (F : ι → Chain → Cx)
    (hF : ∀ C ∈ cs, toC (F' C) = ∑ k ∈ s, u k * toC (F k C)) :
    toC (csum (cs.map F')) = ∑ k ∈ s, u k * toC (csum (cs.map (F k))) := by
  induction cs with
  | nil => simp only [List.map_nil, csum]; rw [toC_zero]; simp
  | cons C r ih =>
    simp only [List.map_cons, csum, toC_add]
    rw [hF C (List.mem_cons_self ..), ih (fun C' hC' => hF C' (List.mem_cons_of_mem _ hC')),
      ← Finset.sum_add_distrib]
    refine Finset.sum_congr rfl fun k _ => ?_
    ring

/-! ### the chain amplitude is linear in the column of the alignment D-function of one final particle -/

/-- if the product of the alignment D-functions with the primed helicity of `f` set to `ext f` is the `u`-mixture of
the products with that helicity set to `e k`, and the chain contracts the unprimed helicity of `f`, the chain
amplitude is the same mixture -/
theorem ampWith_final_mix {ι : Type} (s : Finset ι) (u : ι → ℂ) (e : ι → Int) (C : Chain) (f : Nat)
    (hf : f ∈ C.inner.map Prod.fst) (Dtop : Int → Int → Cx) (Dal' Dal : Align → Int → Int → Cx) (la : Int) (ext : Hel)
    (hal : ∀ h : Hel, toC (cprod (C.aligns.map fun A => Dal' A (h A.p) (ext A.p)))
      = ∑ k ∈ s, u k * toC (cprod (C.aligns.map fun A => Dal A (h A.p) ((ext.set f (e k)) A.p)))) :
    toC (C.ampWith Dtop Dal' la ext) = ∑ k ∈ s, u k * toC (C.ampWith Dtop Dal la (ext.set f (e k))) := by
  unfold Chain.ampWith
  simp only [toC_mul]
  have e1 : ∀ k, sumOver C.inner (C.term Dtop Dal la (ext.set f (e k))) (ext.set f (e k))
      = sumOver C.inner (C.term Dtop Dal la (ext.set f (e k))) ext := fun k => sumOver_set_of_mem _ _ f hf ext _
  simp only [e1]
  rw [toC_sumOver_lin s u C.inner (C.term Dtop Dal' la ext) (fun k => C.term Dtop Dal la (ext.set f (e k))) _ ext]
  · rw [Finset.mul_sum]
    refine Finset.sum_congr rfl fun k _ => ?_
    ring
  · intro h
    unfold Chain.term
    simp only [toC_mul, hal h, Finset.mul_sum]
    refine Finset.sum_congr rfl fun k _ => ?_
    ring

/-- the product over the alignment D-functions when exactly one of them (`A0`) belongs to `f` -/
theorem aligns_prod_mix {ι : Type} (s : Finset ι) (u : ι → ℂ) (e : ι → Int) (f : Nat) (pre post : List Align)
    (A0 : Align) (hA0 : A0.p = f) (hne : ∀ A ∈ pre ++ post, A.p ≠ f) (Dal' Dal : Align → Int → Int → Cx)
    (hsame : ∀ A ∈ pre ++ post, ∀ l m, Dal' A l m = Dal A l m) (ext h : Hel)
    (hcol : toC (Dal' A0 (h f) (ext f)) = ∑ k ∈ s, u k * toC (Dal A0 (h f) (e k))) :
    toC (cprod ((pre ++ A0 :: post).map fun A => Dal' A (h A.p) (ext A.p)))
      = ∑ k ∈ s, u k * toC (cprod ((pre ++ A0 :: post).map fun A => Dal A (h A.p) ((ext.set f (e k)) A.p))) := by
  have hL : ∀ (L : List Align) (x : Int), (∀ A ∈ L, A ∈ pre ++ post) →
      L.map (fun A => Dal' A (h A.p) (ext A.p)) = L.map (fun A => Dal A (h A.p) ((ext.set f x) A.p)) := by
    intro L x hLm
    apply List.map_congr_left
    intro A hA
    rw [hsame A (hLm A hA), Hel.set_apply_ne _ _ _ _ (hne A (hLm A hA))]
  simp only [List.map_append, List.map_cons, toC_cprod, List.prod_append, List.prod_cons]
  rw [hA0, hcol, Finset.sum_mul, Finset.mul_sum]
  refine Finset.sum_congr rfl fun k _ => ?_
  rw [hL pre (e k) (fun A hA => List.mem_append_left _ hA), hL post (e k) (fun A hA => List.mem_append_right _ hA),
    Hel.set_apply_self]
  ring

/-- structural hypothesis on a chain for mixing the helicity index of the final particle `f`: the unprimed helicity of `f`
is contracted and exactly one alignment D-function belongs to `f` -/
def Chain.AlignedOnce (C : Chain) (f : Nat) : Prop :=
  f ∈ C.inner.map Prod.fst ∧
    ∃ (pre : List Align) (A0 : Align) (post : List Align), C.aligns = pre ++ A0 :: post ∧ A0.p = f ∧ ∀ A ∈ pre ++ post, A.p ≠ f

/-- one chain: columns of the `f` alignment D-function mixed by `V` (`D' = D · V`), other alignment D-functions equal -/
theorem chain_final_mix (N : ℕ) (f : Nat) (V : Matrix (Fin (N + 1)) (Fin (N + 1)) ℂ) (C : Chain)
    (hC : C.AlignedOnce f) (Dtop : Int → Int → Cx) (Dal' Dal : Align → Int → Int → Cx)
    (hcol : ∀ A ∈ C.aligns, A.p = f → ∀ (l : Int) (k : Fin (N + 1)),
      toC (Dal' A l (hel2 N k)) = ∑ j, toC (Dal A l (hel2 N j)) * V j k)
    (hsame : ∀ A ∈ C.aligns, A.p ≠ f → ∀ l m, Dal' A l m = Dal A l m) (la : Int) (ext : Hel) (k : Fin (N + 1)) :
    toC (C.ampWith Dtop Dal' la (ext.set f (hel2 N k)))
      = ∑ j, V j k * toC (C.ampWith Dtop Dal la (ext.set f (hel2 N j))) := by
  obtain ⟨hf, pre, A0, post, hsplit, hA0, hne⟩ := hC
  have hmem : ∀ A ∈ pre ++ post, A ∈ C.aligns := by
    intro A hA
    rw [hsplit]
    rcases List.mem_append.mp hA with h | h
    · exact List.mem_append_left _ h
    · exact List.mem_append_right _ (List.mem_cons_of_mem _ h)
  have hA0m : A0 ∈ C.aligns := by rw [hsplit]; simp
  have key := ampWith_final_mix Finset.univ (fun j => V j k) (hel2 N) C f hf Dtop Dal' Dal la (ext.set f (hel2 N k))
    (by
      intro h
      rw [hsplit]
      apply aligns_prod_mix Finset.univ (fun j => V j k) (hel2 N) f pre post A0 hA0 hne Dal' Dal
        (fun A hA => hsame A (hmem A hA) (hne A hA))
      rw [Hel.set_apply_self, hcol A0 hA0m hA0 (h f) k]
      refine Finset.sum_congr rfl fun j _ => ?_
      ring)
  simp only [Hel.set_set] at key
  exact key

/-- the group amplitude under the mixing of the `f` columns, all chains with the SAME matrix `V` -/
theorem group_final_mix (N : ℕ) (f : Nat) (V : Matrix (Fin (N + 1)) (Fin (N + 1)) ℂ) (cs : List Chain)
    (hcs : ∀ C ∈ cs, C.AlignedOnce f) (Dtop : Chain → Int → Int → Cx) (Dal' Dal : Chain → Align → Int → Int → Cx)
    (hcol : ∀ C ∈ cs, ∀ A ∈ C.aligns, A.p = f → ∀ (l : Int) (k : Fin (N + 1)),
      toC (Dal' C A l (hel2 N k)) = ∑ j, toC (Dal C A l (hel2 N j)) * V j k)
    (hsame : ∀ C ∈ cs, ∀ A ∈ C.aligns, A.p ≠ f → ∀ l m, Dal' C A l m = Dal C A l m)
    (la : Int) (ext : Hel) (k : Fin (N + 1)) :
    toC (groupAmpWith cs Dtop Dal' la (ext.set f (hel2 N k)))
      = ∑ j, V j k * toC (groupAmpWith cs Dtop Dal la (ext.set f (hel2 N j))) := by
  unfold groupAmpWith
  exact csum_lin Finset.univ (fun j => V j k) cs _ (fun j C => C.ampWith (Dtop C) (Dal C) la (ext.set f (hel2 N j)))
    (fun C hC => chain_final_mix N f V C (hcs C hC) (Dtop C) (Dal' C) (Dal C) (hcol C hC) (hsame C hC) la ext k)

/-! ### the nested helicity sum of the density -/

theorem sumOverR_append (L1 L2 : List (Nat × List Int)) (φ : Hel → ℝ) (h : Hel) :
    sumOverR (L1 ++ L2) φ h = sumOverR L1 (fun h' => sumOverR L2 φ h') h := by
  induction L1 generalizing h with
  | nil => rfl
  | cons a r ih =>
    simp only [List.cons_append, sumOverR]
    congr 1
    apply List.map_congr_left
    intro l _
    exact ih _

theorem list_sum_comm {α β : Type} (R : List α) (S : List β) (F : α → β → ℝ) :
    (R.map fun l => (S.map fun m => F l m).sum).sum = (S.map fun m => (R.map fun l => F l m).sum).sum := by
  induction R with
  | nil => simp
  | cons a r ih => simp [ih, List.sum_map_add]

/-- the sum over the helicity of `f` commutes with the sums over other particles -/
theorem sumOverR_set_comm (L : List (Nat × List Int)) (φ : Hel → ℝ) (f : Nat) (hf : f ∉ L.map Prod.fst)
    (R : List Int) (h : Hel) :
    rsum (R.map fun l => sumOverR L φ (h.set f l)) = sumOverR L (fun e => rsum (R.map fun l => φ (e.set f l))) h := by
  induction L generalizing h with
  | nil => rfl
  | cons a r ih =>
    have hfa : f ≠ a.1 := by
      intro hh; apply hf; simp [hh]
    have hfr : f ∉ r.map Prod.fst := by
      intro hh; apply hf; simp only [List.map_cons, List.mem_cons]; exact Or.inr hh
    simp only [sumOverR, rsum_eq]
    rw [list_sum_comm]
    congr 1
    apply List.map_congr_left
    intro m _
    have := ih hfr (h.set a.1 m)
    simp only [rsum_eq] at this
    rw [← this]
    congr 1
    apply List.map_congr_left
    intro l _
    rw [Hel.set_comm h f a.1 hfa l m]

/-- the transpose of a unitary matrix is unitary -/
theorem transpose_unitary {ι : Type} [Fintype ι] [DecidableEq ι] (V : Matrix ι ι ℂ) (hV : star V * V = 1) :
    star Vᵀ * Vᵀ = 1 := by
  have h2 : V * star V = 1 := mul_eq_one_comm.mp hV
  have h3 : star Vᵀ = (star V)ᵀ := by
    ext i j; simp [Matrix.star_apply]
  rw [h3, ← Matrix.transpose_mul, h2, Matrix.transpose_one]

/-- **one final particle**: if the group amplitude with the new alignment D-functions is, on the helicity index of the
final particle `f` (doubled spin `N`, full range `mRange N`), the `V`-mixture of the old one with `V` unitary, the
helicity-summed density is unchanged.  Any top helicity list, any other index lists before / after `f` (`f` must not
occur again after its own entry). -/
theorem densityWith_final_mix (N : ℕ) (f : Nat) (V : Matrix (Fin (N + 1)) (Fin (N + 1)) ℂ) (hV : star V * V = 1)
    (cs : List Chain) (Dtop : Chain → Int → Int → Cx) (Dal' Dal : Chain → Align → Int → Int → Cx)
    (tops : List Int) (pre post : List (Nat × List Int)) (hpost : f ∉ post.map Prod.fst)
    (hmix : ∀ (la : Int) (ext : Hel) (k : Fin (N + 1)),
      toC (groupAmpWith cs Dtop Dal' la (ext.set f (hel2 N k)))
        = ∑ j, V j k * toC (groupAmpWith cs Dtop Dal la (ext.set f (hel2 N j)))) :
    densityWith cs Dtop Dal' tops (pre ++ (f, mRange N) :: post)
      = densityWith cs Dtop Dal tops (pre ++ (f, mRange N) :: post) := by
  unfold densityWith
  congr 1
  apply List.map_congr_left
  intro la _
  rw [sumOverR_append, sumOverR_append]
  apply sumOverR_congr
  intro h
  simp only [sumOverR]
  rw [sumOverR_set_comm post _ f hpost, sumOverR_set_comm post _ f hpost]
  apply sumOverR_congr
  intro e
  rw [rsum_mRange, rsum_mRange]
  have key := unitary_mix Vᵀ (transpose_unitary V hV)
    (fun (_ : Unit) (j : Fin (N + 1)) => toC (groupAmpWith cs Dtop Dal la (e.set f (hel2 N j))))
  unfold UnitaryMix.density at key
  simp only [Finset.univ_unique, Finset.sum_singleton] at key
  simp only [← normSq_toC]
  rw [← key]
  refine Finset.sum_congr rfl fun k _ => ?_
  rw [hmix la e k]
  rfl

/-- `densityWith` sees the alignment D-functions only at the alignment entries of the listed chains -/
theorem densityWith_congr_Dal (cs : List Chain) (Dtop : Chain → Int → Int → Cx)
    (Dal' Dal : Chain → Align → Int → Int → Cx) (tops : List Int) (finals : List (Nat × List Int))
    (hsame : ∀ C ∈ cs, ∀ A ∈ C.aligns, ∀ l m, Dal' C A l m = Dal C A l m) :
    densityWith cs Dtop Dal' tops finals = densityWith cs Dtop Dal tops finals := by
  have hg : ∀ la ext, groupAmpWith cs Dtop Dal' la ext = groupAmpWith cs Dtop Dal la ext := by
    intro la ext
    unfold groupAmpWith
    congr 1
    apply List.map_congr_left
    intro C hC
    unfold Chain.ampWith
    have ht : C.term (Dtop C) (Dal' C) la ext = C.term (Dtop C) (Dal C) la ext := by
      funext h
      unfold Chain.term
      congr 2
      apply List.map_congr_left
      intro A hA
      exact hsame C hC A hA _ _
    rw [ht]
  unfold densityWith
  simp only [hg]

/-! ### `mkD` for an arbitrary row helicity -/

/-- the gather reads row `⌊(λ+N)/2⌋` whatever `λ` is -/
theorem mkD_row_eq (N : ℕ) (la δ : Int) (α β γ : ℝ) (hr : ((la + (N : Int)) / 2).toNat < N + 1) :
    mkD N α β γ la δ = mkD N α β γ (hel2 N ⟨((la + (N : Int)) / 2).toNat, hr⟩) δ := by
  unfold mkD dGather
  have e1 : ((hel2 N ⟨((la + (N : Int)) / 2).toNat, hr⟩ + (N : Int)) / 2).toNat = ((la + (N : Int)) / 2).toNat := by
    unfold hel2
    simp only
    omega
  simp only [e1]

/-- … and a row outside the table is the default zero -/
theorem mkD_row_zero (N : ℕ) (la δ : Int) (α β γ : ℝ) (hr : ¬ ((la + (N : Int)) / 2).toNat < N + 1) :
    mkD N α β γ la δ = ⟨0, 0⟩ := by
  unfold mkD dGather
  split_ifs with h
  · have hl : (dMatrixConj N α β γ).length ≤ ((la + (N : Int)) / 2).toNat := by
      unfold dMatrixConj
      simp only [List.length_map, List.length_range]
      omega
    have e0 : (dMatrixConj N α β γ).getD ((la + (N : Int)) / 2).toNat [] = [] := by
      rw [List.getD_eq_getElem?_getD, List.getElem?_eq_none hl]
      rfl
    rw [e0]
    rfl
  · rfl

theorem toC_mkD_hel2 (N : ℕ) (i k : Fin (N + 1)) (α β γ : ℝ) :
    toC (mkD N α β γ (hel2 N i) (hel2 N k)) = DConj N α β γ i k := by
  rw [toC_mkD]
  have hk : (hel2 N k).natAbs ≤ N := by unfold hel2; have := k.2; omega
  rw [dif_pos hk]
  congr 1
  apply Fin.ext
  simp only
  unfold hel2
  have := k.2
  omega

/-- right multiplication of the D-matrix acts on the columns of `mkD`, for EVERY row helicity -/
theorem mkD_col_mix (N : ℕ) (α' β' γ' α β γ a b c : ℝ)
    (hD : DConj N α' β' γ' = DConj N α β γ * DConj N a b c) (l : Int) (k : Fin (N + 1)) :
    toC (mkD N α' β' γ' l (hel2 N k)) = ∑ j, toC (mkD N α β γ l (hel2 N j)) * DConj N a b c j k := by
  by_cases hr : ((l + (N : Int)) / 2).toNat < N + 1
  · rw [mkD_row_eq N l _ α' β' γ' hr, toC_mkD_hel2, hD, Matrix.mul_apply]
    refine Finset.sum_congr rfl fun j _ => ?_
    rw [mkD_row_eq N l _ α β γ hr, toC_mkD_hel2]
  · rw [mkD_row_zero N l _ α' β' γ' hr, toC_zero]
    symm
    apply Finset.sum_eq_zero
    intro j _
    rw [mkD_row_zero N l _ α β γ hr, toC_zero, zero_mul]

end TfPwaV.AmpR
