import TfPwaV.Proofs.TopologyRename
/-! C14, all n: `topology_map(other)` for a chain of a named binary tree and a chain of the same tree with renamed
vertices (renaming injective on the vertices, finals fixed): the particle map is the renaming, every decay is mapped
to the decay of `other` with the renamed mother and daughters. -/
set_option linter.unusedSectionVars false
namespace TfPwaV.Topology

section
variable {α : Type}

theorem NT.leaves_length_le {s t : NT α} (h : s ∈ t.subs) : s.leaves.length ≤ t.leaves.length := by
  induction t with
  | leaf a => simp only [NT.subs, List.mem_singleton] at h; subst h; exact Nat.le_refl _
  | node a l r ihl ihr =>
    simp only [NT.subs, List.mem_cons, List.mem_append] at h
    rcases h with rfl | h | h
    · exact Nat.le_refl _
    · have := ihl h; simp only [NT.leaves, List.length_append]; omega
    · have := ihr h; simp only [NT.leaves, List.length_append]; omega

/-- in a tree with pairwise different vertices two different subtrees have different sets of finals -/
theorem NT.eq_of_leaves_perm {t : NT α} (hv : t.verts.Nodup) {s s' : NT α} (hs : s ∈ t.subs) (hs' : s' ∈ t.subs)
    (hp : s.leaves.Perm s'.leaves) : s = s' := by
  induction t with
  | leaf a =>
    simp only [NT.subs, List.mem_singleton] at hs hs'
    rw [hs, hs']
  | node a l r ihl ihr =>
    have hv' := hv
    rw [NT.verts_node, List.nodup_cons, List.nodup_append] at hv'
    obtain ⟨_, hl, hr, hd⟩ := hv'
    have hl1 := l.leaves_length_pos
    have hr1 := r.leaves_length_pos
    have cross : ∀ u u' : NT α, u ∈ l.subs → u' ∈ r.subs → u.leaves.Perm u'.leaves → False := by
      intro u u' hu hu' hpu
      obtain ⟨z, hz⟩ := u.leaves_exists
      have h1 := l.leaves_sub_verts z (NT.sub_leaves hu z hz)
      have h2 := r.leaves_sub_verts z (NT.sub_leaves hu' z (hpu.mem_iff.1 hz))
      exact hd z h1 z h2 rfl
    simp only [NT.subs, List.mem_cons, List.mem_append] at hs hs'
    rcases hs with e | m | m <;> rcases hs' with e' | m' | m'
    · rw [e, e']
    · exfalso
      have := NT.leaves_length_le m'
      have h2 := hp.length_eq
      rw [e] at h2; simp only [NT.leaves, List.length_append] at h2; omega
    · exfalso
      have := NT.leaves_length_le m'
      have h2 := hp.length_eq
      rw [e] at h2; simp only [NT.leaves, List.length_append] at h2; omega
    · exfalso
      have := NT.leaves_length_le m
      have h2 := hp.length_eq
      rw [e'] at h2; simp only [NT.leaves, List.length_append] at h2; omega
    · exact ihl hl m m'
    · exact (cross s s' m m' hp).elim
    · exfalso
      have := NT.leaves_length_le m
      have h2 := hp.length_eq
      rw [e'] at h2; simp only [NT.leaves, List.length_append] at h2; omega
    · exact (cross s' s m' m hp.symm).elim
    · exact ihr hr m m'

theorem mapM_of_forall {β γ : Type} (g : β → Option γ) (f : β → γ) (l : List β) (h : ∀ k ∈ l, g k = some (f k)) :
    l.mapM g = some (l.map f) := by
  induction l with
  | nil => rfl
  | cons a l ih =>
    simp only [List.mapM_cons, h a List.mem_cons_self, ih (fun k hk => h k (List.mem_cons_of_mem _ hk)),
      Option.pure_def, Option.bind_eq_bind, Option.bind_some, List.map_cons]

end

section
variable {α : Type} [DecidableEq α] [LT α] [DecidableLT α]

/-- the particle part of `topology_map`: first entry of `b` with the same value -/
def pmOf (a b : Dict α (List α)) : Dict α α :=
  a.foldl (fun ret kv =>
    match b.find? fun kw => kv.2 = kw.2 with
    | some kw => ret.set kv.1 kw.1
    | none => ret) []

theorem pmFold (g : α → α) (b : Dict α (List α)) (a : Dict α (List α)) (init : Dict α α)
    (h : ∀ kv ∈ a, ∃ kw, (b.find? fun kw => kv.2 = kw.2) = some kw ∧ kw.1 = g kv.1) :
    ∀ x, (a.foldl (fun ret kv =>
      match b.find? fun kw => kv.2 = kw.2 with
      | some kw => ret.set kv.1 kw.1
      | none => ret) init).get? x = if x ∈ a.keys then some (g x) else init.get? x := by
  induction a generalizing init with
  | nil => intro x; simp [Dict.keys]
  | cons kv a ih =>
    intro x
    obtain ⟨kw, hkw, hg⟩ := h kv List.mem_cons_self
    simp only [List.foldl_cons, hkw]
    rw [ih _ (fun kv' hkv' => h kv' (List.mem_cons_of_mem _ hkv'))]
    simp only [Dict.keys, List.map_cons, List.mem_cons]
    by_cases hx : x ∈ a.map (·.1)
    · simp [hx]
    · by_cases e : x = kv.1
      · subst e; simp [hx, Dict.get?_set_self, hg]
      · have e' : kv.1 ≠ x := fun e'' => e e''.symm
        simp [hx, e, Dict.get?_set_ne _ _ _ _ e']

/-- ★ `topology_map` between a chain of the tree `a → l r` and a chain of the same tree with vertices renamed by `f`
(injective on the vertices, finals fixed): the call returns; the particle map sends every vertex `x` to `f x` (so it
is a bijection onto the particles of `other` that fixes the finals); and the decay map lists every decay of the
chain, in order, with a decay of `other` whose mother and daughters are the images (`Decay.same`: up to daughter
order). -/
theorem topologyMap_rename (hα : LinLt α) {c c2 : Chain α} {a : α} {l r : NT α} (hc : Rep c (NT.node a l r))
    (hv : (NT.node a l r).verts.Nodup) (f : α → α)
    (hinj : ∀ x ∈ (NT.node a l r).verts, ∀ y ∈ (NT.node a l r).verts, f x = f y → x = y)
    (hfix : ∀ z ∈ (NT.node a l r).leaves, f z = z) (hc2 : Rep c2 ((NT.node a l r).mapN f)) :
    ∃ pm dm, topologyMap c c2 = some (pm, dm) ∧
      (∀ x, pm.get? x = if x ∈ (NT.node a l r).verts then some (f x) else none) ∧
      dm.map (·.1) = c ∧ ∀ p ∈ dm, p.2 ∈ c2 ∧ Decay.same (Decay.rename f p.1) p.2 = true := by
  have hv2 : ((NT.node a l r).mapN f).verts.Nodup := by
    rw [NT.mapN_verts]; exact nodup_map_of_inj_on _ _ hv hinj
  obtain ⟨ta, hta, hka, hpa⟩ := sortedTable_rep hα hc hv
  obtain ⟨tb, htb, hkb, hpb⟩ := sortedTable_rep hα (a := f a) (l := l.mapN f) (r := r.mapN f) hc2 hv2
  have hTa : IsTableOf ta (NT.node a l r) := ⟨hka, hpa⟩
  have hTb : IsTableOf tb ((NT.node a l r).mapN f) := ⟨hkb, hpb⟩
  have hleaves : ∀ s ∈ (NT.node a l r).subs, (s.mapN f).leaves = s.leaves := by
    intro s hs
    rw [NT.mapN_leaves]
    have h := List.map_congr_left (f := f) (g := id) (l := s.leaves)
      (fun z hz => hfix z (NT.sub_leaves hs z hz))
    simpa using h
  -- entries of tb
  have hbmem : ∀ kw ∈ tb, ∃ s ∈ (NT.node a l r).subs, kw = (f s.name, isort s.leaves) := by
    intro kw hkw
    obtain ⟨s2, hs2, h1, h2⟩ := (hTb.mem_iff kw.1 kw.2).1 hkw
    rw [NT.mapN_subs] at hs2
    obtain ⟨s, hs, rfl⟩ := List.mem_map.1 hs2
    refine ⟨s, hs, ?_⟩
    rw [Prod.ext_iff]
    exact ⟨by rw [← h1, NT.mapN_name], by rw [← h2, hleaves s hs]⟩
  have hfind : ∀ kv ∈ ta, ∃ kw, (tb.find? fun kw => kv.2 = kw.2) = some kw ∧ kw.1 = f kv.1 := by
    intro kv hkv
    obtain ⟨s, hs, h1, h2⟩ := (hTa.mem_iff kv.1 kv.2).1 hkv
    have hex : (f s.name, isort s.leaves) ∈ tb := by
      rw [hTb.mem_iff]
      refine ⟨s.mapN f, ?_, NT.mapN_name f s, by rw [hleaves s hs]⟩
      rw [NT.mapN_subs]; exact List.mem_map.2 ⟨s, hs, rfl⟩
    have hsome : (tb.find? fun kw => kv.2 = kw.2).isSome = true := by
      rw [List.find?_isSome]
      exact ⟨_, hex, by simp [h2]⟩
    obtain ⟨kw, hkw⟩ := Option.isSome_iff_exists.1 hsome
    refine ⟨kw, hkw, ?_⟩
    have hp := List.find?_some hkw
    obtain ⟨s', hs', rfl⟩ := hbmem kw (List.mem_of_find?_eq_some hkw)
    simp only [decide_eq_true_eq] at hp
    rw [← h2] at hp
    have := NT.eq_of_leaves_perm hv hs hs' ((isort_eq_iff_perm hα _ _).1 hp)
    rw [← this, h1]
  have hkeys : ∀ x, x ∈ ta.keys ↔ x ∈ (NT.node a l r).verts := by
    intro x
    have := (hpa.map (·.1)).mem_iff (a := x)
    simp only [List.map_map, Function.comp_def] at this
    exact this
  have hpm := pmFold f tb ta [] hfind
  have hpm' : ∀ x, (pmOf ta tb).get? x = if x ∈ (NT.node a l r).verts then some (f x) else none := by
    intro x
    have := hpm x
    simp only [Dict.get?] at this
    by_cases hx : x ∈ (NT.node a l r).verts
    · simpa [pmOf, hx, (hkeys x).2 hx] using this
    · have hx' : x ∉ ta.keys := fun h => hx ((hkeys x).1 h)
      simpa [pmOf, hx, hx'] using this
  -- the decay loop
  have hstep : ∀ (rest : Chain α) (acc : List (Decay α × Decay α)), (∀ d ∈ rest, d ∈ c) →
      ∃ dm, rest.foldl (fun (acc : Option (List (Decay α × Decay α))) (i : Decay α) =>
          match acc, (pmOf ta tb).get? i.core, i.outs.mapM fun k => (pmOf ta tb).get? k with
          | some l, some co, some os =>
            match c2.find? fun j => Decay.same ⟨co, os⟩ j with
            | some j => some (l ++ [(i, j)])
            | none => some l
          | _, _, _ => none) (some acc) = some (acc ++ dm) ∧ dm.map (·.1) = rest ∧
        ∀ p ∈ dm, p.2 ∈ c2 ∧ Decay.same (Decay.rename f p.1) p.2 = true := by
    intro rest
    induction rest with
    | nil => intro acc _; exact ⟨[], by simp, rfl, fun p hp => by simp at hp⟩
    | cons i rest ih =>
      intro acc hsub
      have hi : i ∈ c := hsub i List.mem_cons_self
      obtain ⟨l1, r1, hn, hp⟩ := hc.sound i hi
      have ch := NT.children_mem hn
      have hcore : (pmOf ta tb).get? i.core = some (f i.core) := by
        rw [hpm']; simp [show i.core ∈ (NT.node a l r).verts from NT.mem_verts_of_sub hn]
      have houts : (i.outs.mapM fun k => (pmOf ta tb).get? k) = some (i.outs.map f) := by
        apply mapM_of_forall
        intro k hk
        have := hp.mem_iff.1 hk
        simp only [List.mem_cons, List.mem_nil_iff, or_false] at this
        rw [hpm']
        rcases this with e | e
        · rw [e]; simp [NT.mem_verts_of_sub ch.1]
        · rw [e]; simp [NT.mem_verts_of_sub ch.2]
      have hn2 : NT.node (f i.core) (l1.mapN f) (r1.mapN f) ∈ ((NT.node a l r).mapN f).subs := by
        rw [NT.mapN_subs]; exact List.mem_map.2 ⟨_, hn, rfl⟩
      obtain ⟨e, he, hec, hep⟩ := hc2.decay hv2 hn2
      have hsame : Decay.same ⟨f i.core, i.outs.map f⟩ e = true := by
        simp only [Decay.same, Bool.and_eq_true, decide_eq_true_eq]
        refine ⟨hec.symm, (isort_eq_iff_perm hα _ _).2 ?_⟩
        refine (hp.map f).trans ?_
        simp only [List.map_cons, List.map_nil, ← NT.mapN_name]
        exact hep.symm
      have hsome : (c2.find? fun j => Decay.same ⟨f i.core, i.outs.map f⟩ j).isSome = true := by
        rw [List.find?_isSome]; exact ⟨e, he, hsame⟩
      obtain ⟨j, hj⟩ := Option.isSome_iff_exists.1 hsome
      obtain ⟨dm, h1, h2, h3⟩ := ih (acc ++ [(i, j)]) (fun d hd => hsub d (List.mem_cons_of_mem _ hd))
      refine ⟨(i, j) :: dm, ?_, by simp [h2], ?_⟩
      · simp only [List.foldl_cons, hcore, houts, hj]
        rw [h1]; simp
      · intro p hp'
        rcases List.mem_cons.1 hp' with rfl | hp'
        · exact ⟨List.mem_of_find?_eq_some hj, List.find?_some hj⟩
        · exact h3 p hp'
  obtain ⟨dm, h1, h2, h3⟩ := hstep c [] (fun d hd => hd)
  refine ⟨pmOf ta tb, dm, ?_, hpm', h2, h3⟩
  simp only [topologyMap, hta, htb]
  have h1' := h1
  simp only [List.nil_append] at h1'
  refine (congrArg (Option.map fun dm' => (pmOf ta tb, dm')) (?_ : _ = some dm)).trans rfl
  exact h1'

end

end TfPwaV.Topology
