import TfPwaV.Proofs.Einsum

/-! C05 (einsum): semantics of one `tensor_einsum_reduce_sum` step. -/
namespace TfPwaV.Einsum

/-- the assignment respects the sizes on the labels `ro` -/
def EnvOK (sizes : Idx → Nat) (ro : List Idx) (env : Env) : Prop := ∀ l ∈ ro, env l < sizes l

theorem clip_map (ro : List Idx) (d e : Idx → Nat) :
    clip (ro.map d) (ro.map e) = ro.map (fun l => if d l = 1 then 0 else e l) := by
  induction ro with
  | nil => simp [clip]
  | cons l ro ih =>
    simp only [clip, List.map_cons, List.zipWith_cons_cons] at ih ⊢
    rw [ih]

theorem inRange_map (sizes : Idx → Nat) (e : Env) : ∀ (ro : List Idx), (∀ l ∈ ro, e l < sizes l) →
    InRange (ro.map sizes) (ro.map e)
  | [], _ => by simp [InRange]
  | l :: ro, h => by
    simp only [List.map_cons, InRange]
    exact ⟨h l (List.mem_cons_self), inRange_map sizes e ro (fun x hx => h x (List.mem_cons_of_mem _ hx))⟩

/-- broadcast dimension -/
def bdim (a b : Nat) : Nat := if a = b then a else if a = 1 then b else a

theorem bshape_map (d1 d2 : Idx → Nat) : ∀ (ro : List Idx) (s : List Nat),
    bshape (ro.map d1) (ro.map d2) = some s → s = ro.map (fun l => bdim (d1 l) (d2 l))
  | [], s, h => by simp [bshape] at h; simp [h]
  | l :: ro, s, h => by
    simp only [List.map_cons, bshape] at h
    cases hr : bshape (ro.map d1) (ro.map d2) with
    | none => simp [hr] at h
    | some r =>
      have ih := bshape_map d1 d2 ro r hr
      simp only [hr, Option.bind_some] at h
      split_ifs at h with h1 h2 h3
      · simp only [Option.some.injEq] at h; subst h; simp [bdim, h1, ih]
      · simp only [Option.some.injEq] at h; subst h; simp [bdim, h2, ih]; intro h; exact h.symm
      · simp only [Option.some.injEq] at h; subst h; simp [bdim, h1, h2, ih]

theorem flatIdx_expand (sizes e : Idx → Nat) (p : Idx → Bool) : ∀ (ro : List Idx),
    flatIdx (ro.map fun l => if p l then sizes l else 1) (ro.map fun l => if p l then e l else 0)
        = flatIdx ((ro.filter p).map sizes) ((ro.filter p).map e)
      ∧ prodN (ro.map fun l => if p l then sizes l else 1) = prodN ((ro.filter p).map sizes)
  | [] => by simp [flatIdx, prodN]
  | l :: ro => by
    obtain ⟨ih1, ih2⟩ := flatIdx_expand sizes e p ro
    by_cases hp : p l = true
    · simp only [List.map_cons, hp, if_true, List.filter_cons, flatIdx, prodN, ih1, ih2]
      exact ⟨trivial, trivial⟩
    · simp only [Bool.not_eq_true] at hp
      simp [List.map_cons, hp, flatIdx, prodN, ih1, ih2]

theorem lookup_zip_map (sizes : Idx → Nat) (l : Idx) : ∀ (L : List Idx),
    ((L.zip (L.map sizes)).lookup l).getD 1 = if l ∈ L then sizes l else 1
  | [] => by simp
  | a :: L => by
    have ih := lookup_zip_map sizes l L
    simp only [List.map_cons, List.zip_cons_cons, List.lookup_cons, List.mem_cons]
    by_cases h : l = a
    · subst h; simp
    · have : (l == a) = false := by simpa using h
      simp only [this, ih]
      simp [h]

/-- `(L'.map idxOf_L).idxOf (idxOf_L a) = idxOf_{L'} a` -/
theorem idxOf_map_idxOf (L : List Idx) : ∀ (L' : List Idx) (a : Idx), a ∈ L → (∀ x ∈ L', x ∈ L) →
    (L'.map fun k => L.idxOf k).idxOf (L.idxOf a) = L'.idxOf a
  | [], a, _, _ => by simp
  | b :: L', a, ha, hsub => by
    have ih := idxOf_map_idxOf L L' a ha (fun x hx => hsub x (List.mem_cons_of_mem _ hx))
    simp only [List.map_cons, List.idxOf_cons]
    by_cases hab : b = a
    · subst hab; simp
    · have hb : b ∈ L := hsub b (List.mem_cons_self)
      have hne : L.idxOf b ≠ L.idxOf a := by
        intro h
        apply hab
        have h1 := List.getElem_idxOf (List.idxOf_lt_length_iff.mpr hb)
        have h2 := List.getElem_idxOf (List.idxOf_lt_length_iff.mpr ha)
        rw [← h1, ← h2]
        simp [h]
      have e1 : (L.idxOf b == L.idxOf a) = false := by simpa using hne
      have e2 : (b == a) = false := by simpa using hab
      simp only [e1, e2, cond_false, ih]

/-- the index read by `tf.transpose` -/
theorem transpose_index (L L' : List Idx) (env : Env) (hL : L.Nodup) (hp : L'.Perm L) :
    ((List.range L.length).map fun k => (L'.map env).getD ((L'.map fun k => L.idxOf k).idxOf k) 0) = L.map env := by
  apply List.ext_getElem
  · simp
  · intro k h1 h2
    simp only [List.length_map, List.length_range] at h1
    simp only [List.getElem_map, List.getElem_range]
    have ha : L[k] ∈ L := List.getElem_mem h1
    have hk : L.idxOf L[k] = k := hL.idxOf_getElem k h1
    have := idxOf_map_idxOf L L' L[k] ha (fun x hx => hp.mem_iff.mp hx)
    rw [hk] at this
    rw [this]
    have hmem : L[k] ∈ L' := hp.mem_iff.mpr ha
    have hlt : L'.idxOf L[k] < L'.length := List.idxOf_lt_length_iff.mpr hmem
    rw [List.getD_eq_getElem?_getD, List.getElem?_map, List.getElem?_eq_getElem hlt]
    simp [List.getElem_idxOf hlt]

/-! ### label bookkeeping -/

theorem mem_dedup (a : Idx) : ∀ l : List Idx, a ∈ dedup l ↔ a ∈ l
  | [] => by simp [dedup]
  | x :: xs => by
    have ih := mem_dedup a xs
    simp only [dedup]
    split_ifs with h
    · rw [List.contains_iff_mem, mem_dedup x xs] at h
      rw [ih, List.mem_cons]
      constructor
      · exact Or.inr
      · rintro (rfl | h')
        · exact h
        · exact h'
    · simp [List.mem_cons, ih]

theorem nodup_dedup : ∀ l : List Idx, (dedup l).Nodup
  | [] => by simp [dedup]
  | x :: xs => by
    have ih := nodup_dedup xs
    simp only [dedup]
    split_ifs with h
    · exact ih
    · rw [List.contains_iff_mem] at h
      exact List.nodup_cons.mpr ⟨h, ih⟩

theorem length_dedup_le : ∀ l : List Idx, (dedup l).length ≤ l.length
  | [] => by simp [dedup]
  | x :: xs => by
    have ih := length_dedup_le xs
    simp only [dedup]
    split_ifs <;> simp <;> omega

theorem nodup_of_hasDup_false : ∀ l : List Idx, hasDup l = false → l.Nodup
  | [], _ => List.nodup_nil
  | x :: xs, h => by
    have hle := length_dedup_le xs
    simp only [hasDup, dedup, bne_eq_false_iff_eq, beq_iff_eq] at h
    split_ifs at h with hc
    · simp only [List.length_cons] at h; omega
    · simp only [List.length_cons, Nat.add_right_cancel_iff] at h
      have hxs : xs.Nodup := nodup_of_hasDup_false xs (by simp [hasDup, h])
      rw [List.contains_iff_mem, mem_dedup] at hc
      exact List.nodup_cons.mpr ⟨hc, hxs⟩

theorem mem_labelSet (a : Idx) (l : List Idx) : a ∈ labelSet l ↔ a ∈ l := by
  simp [labelSet, mem_dedup]

theorem nodup_labelSet (l : List Idx) : (labelSet l).Nodup := by
  unfold labelSet
  exact (List.reverse_perm _).nodup_iff.mpr (nodup_dedup _)

theorem inj_of_nodup_map (f : Idx → Nat) : ∀ (l : List Idx), (l.map f).Nodup → ∀ a ∈ l, ∀ b ∈ l, f a = f b → a = b
  | [], _, a, ha, _, _, _ => by simp at ha
  | x :: xs, h, a, ha, b, hb, hab => by
    simp only [List.map_cons, List.nodup_cons, List.mem_map, not_exists, not_and] at h
    rcases List.mem_cons.mp ha with ha' | ha' <;> rcases List.mem_cons.mp hb with hb' | hb'
    · rw [ha', hb']
    · subst ha'; exact absurd hab.symm (h.1 b hb')
    · subst hb'; exact absurd hab (h.1 a ha')
    · exact inj_of_nodup_map f xs h.2 a ha' b hb' hab

theorem injOn_of_keysDistinct (key : Idx → Nat) (l : List Idx) (h : keysDistinct key l = true) :
    InjOnList key l := by
  simp only [keysDistinct, Bool.not_eq_true', ] at h
  have hnd : (l.map key).Nodup := by
    -- same argument as nodup_of_hasDup_false, on the keys
    have : ∀ m : List Nat, hasDup m = false → m.Nodup := nodup_of_hasDup_false
    exact this _ h
  exact inj_of_nodup_map key l hnd

theorem upd_of_ne (env : Env) (l x : Idx) (v : Nat) (h : x ≠ l) : upd env l v x = env x := by simp [upd, h]
theorem upd_self (env : Env) (l : Idx) (v : Nat) : upd env l v l = v := by simp [upd]

theorem envOfList_of_not_mem : ∀ (L : List Idx) (vs : List Nat) (env : Env) (x : Idx), x ∉ L →
    envOfList L vs env x = env x
  | [], _, _, _, _ => by simp [envOfList]
  | _ :: _, [], _, _, _ => by simp [envOfList]
  | l :: L, v :: vs, env, x, h => by
    simp only [List.mem_cons, not_or] at h
    simp only [envOfList]
    rw [envOfList_of_not_mem L vs _ x h.2, upd_of_ne _ _ _ _ h.1]

theorem map_envOfList : ∀ (L : List Idx) (vs : List Nat) (env : Env), L.Nodup → vs.length = L.length →
    L.map (envOfList L vs env) = vs
  | [], [], _, _, _ => by simp
  | [], _ :: _, _, _, h => by simp at h
  | _ :: _, [], _, _, h => by simp at h
  | l :: L, v :: vs, env, hnd, hlen => by
    have hnd' := List.nodup_cons.mp hnd
    simp only [List.map_cons, envOfList]
    rw [envOfList_of_not_mem L vs _ l hnd'.1, upd_self]
    rw [map_envOfList L vs _ hnd'.2 (by simpa using hlen)]

theorem length_of_inRange : ∀ (s idx : List Nat), InRange s idx → idx.length = s.length
  | [], [], _ => rfl
  | n :: s, i :: is, h => by simp [length_of_inRange s is h.2]
  | [], _ :: _, h => by simp [InRange] at h
  | _ :: _, [], h => by simp [InRange] at h

theorem envOfList_lt (sizes : Idx → Nat) : ∀ (L : List Idx) (vs : List Nat) (env : Env), L.Nodup →
    InRange (L.map sizes) vs → ∀ l ∈ L, envOfList L vs env l < sizes l
  | [], _, _, _, _, l, hl => by simp at hl
  | a :: L, [], _, _, h, _, _ => by simp [InRange] at h
  | a :: L, v :: vs, env, hnd, h, l, hl => by
    have hnd' := List.nodup_cons.mp hnd
    simp only [List.map_cons, InRange] at h
    simp only [envOfList]
    rcases List.mem_cons.mp hl with rfl | hl
    · rw [envOfList_of_not_mem L vs _ l hnd'.1, upd_self]; exact h.1
    · exact envOfList_lt sizes L vs _ hnd'.2 h.2 l hl

theorem dropMask_map (m : Idx → Bool) (f : Idx → Nat) : ∀ ro : List Idx,
    dropMask (ro.map m) (ro.map f) = (ro.filter fun l => !m l).map f
  | [] => by simp [dropMask]
  | l :: ro => by
    simp only [List.map_cons, dropMask, List.filter_cons, dropMask_map m f ro]
    cases m l <;> simp

theorem keepMask_map (m : Idx → Bool) (f : Idx → Nat) : ∀ ro : List Idx,
    keepMask (ro.map m) (ro.map f) = (ro.filter m).map f
  | [] => by simp [keepMask]
  | l :: ro => by
    simp only [List.map_cons, keepMask, List.filter_cons, keepMask_map m f ro]
    cases m l <;> simp

theorem merge_map (m : Idx → Bool) (e : Idx → Nat) : ∀ ro : List Idx,
    merge (ro.map m) ((ro.filter fun l => !m l).map e) ((ro.filter m).map e) = ro.map e
  | [] => by simp [merge]
  | l :: ro => by
    have ih := merge_map m e ro
    simp only [List.map_cons, List.filter_cons]
    cases h : m l
    · simp [merge, ih]
    · simp [merge, ih]

section rep
variable {R : Type} [CommSemiring R]

/-- `E` is an expanded operand over the axis order `ro`: axis of label `l` has dimension `d l` (the label size or 1)
    and its entries are given by the function `G` of the label assignment. -/
structure Rep (sizes : Idx → Nat) (ro : List Idx) (d : Idx → Nat) (E : Tensor R) (G : Env → R) : Prop where
  shape : E.shape = ro.map d
  dim : ∀ l ∈ ro, d l = sizes l ∨ d l = 1
  val : ∀ env, EnvOK sizes ro env → E.get (clip E.shape (ro.map env)) = G env

theorem bdim_dim (sizes : Idx → Nat) (d1 d2 : Idx → Nat) (l : Idx) (h1 : d1 l = sizes l ∨ d1 l = 1)
    (h2 : d2 l = sizes l ∨ d2 l = 1) :
    (bdim (d1 l) (d2 l) = sizes l ∨ bdim (d1 l) (d2 l) = 1) ∧
    ((d1 l = sizes l ∨ d2 l = sizes l) → bdim (d1 l) (d2 l) = sizes l) := by
  unfold bdim
  rcases h1 with h1 | h1 <;> rcases h2 with h2 | h2 <;> split_ifs <;> simp_all

theorem clip_clip (sizes : Idx → Nat) (ro : List Idx) (d d' : Idx → Nat) (env : Env)
    (hd : ∀ l ∈ ro, d l = sizes l ∨ d l = 1) (hd' : ∀ l ∈ ro, d l = sizes l → d' l = sizes l)
    (henv : EnvOK sizes ro env) :
    clip (ro.map d) (clip (ro.map d') (ro.map env)) = clip (ro.map d) (ro.map env) := by
  rw [clip_map ro d' env, clip_map, clip_map]
  apply List.map_congr_left
  intro l hl
  by_cases h1 : d l = 1
  · simp [h1]
  · simp only [h1, if_false]
    have hds : d l = sizes l := (hd l hl).resolve_right h1
    have : d' l = sizes l := hd' l hl hds
    by_cases h2 : d' l = 1
    · have := henv l hl
      simp only [h2, if_true]
      omega
    · simp [h2]

theorem Rep.mul {sizes : Idx → Nat} {ro : List Idx} {d1 d2 : Idx → Nat} {E1 E2 P : Tensor R} {G1 G2 : Env → R}
    (h1 : Rep sizes ro d1 E1 G1) (h2 : Rep sizes ro d2 E2 G2) (hP : mulB E1 E2 = .ok P) :
    Rep sizes ro (fun l => bdim (d1 l) (d2 l)) P (fun e => G1 e * G2 e) := by
  unfold mulB at hP
  rw [h1.shape, h2.shape] at hP
  cases hs : bshape (ro.map d1) (ro.map d2) with
  | none => simp [hs] at hP
  | some s =>
    have hs' := bshape_map d1 d2 ro s hs
    simp only [hs] at hP
    injection hP with hP
    subst hP
    have hdim : ∀ l ∈ ro, bdim (d1 l) (d2 l) = sizes l ∨ bdim (d1 l) (d2 l) = 1 :=
      fun l hl => (bdim_dim sizes d1 d2 l (h1.dim l hl) (h2.dim l hl)).1
    refine ⟨hs', hdim, ?_⟩
    intro env henv
    show (ofFn s _).get (clip s (ro.map env)) = _
    have hin : InRange s (clip s (ro.map env)) := by
      rw [hs', clip_map]
      have : (ro.map fun l => bdim (d1 l) (d2 l)) = ro.map (fun l => bdim (d1 l) (d2 l)) := rfl
      -- in range label by label
      have key : ∀ (ro' : List Idx), (∀ l ∈ ro', l ∈ ro) →
          InRange (ro'.map fun l => bdim (d1 l) (d2 l))
            (ro'.map fun l => if bdim (d1 l) (d2 l) = 1 then 0 else env l) := by
        intro ro'
        induction ro' with
        | nil => intro _; simp [InRange]
        | cons a ro' ih =>
          intro hsub
          simp only [List.map_cons, InRange]
          refine ⟨?_, ih (fun l hl => hsub l (List.mem_cons_of_mem _ hl))⟩
          have ha := hsub a (List.mem_cons_self)
          by_cases h : bdim (d1 a) (d2 a) = 1
          · simp [h]
          · simp only [h, if_false]
            rw [(hdim a ha).resolve_right h]
            exact henv a ha
      exact key ro (fun _ h => h)
    rw [get_ofFn s _ _ hin, hs']
    rw [clip_clip sizes ro d1 _ env h1.dim
        (fun l hl h => (bdim_dim sizes d1 d2 l (h1.dim l hl) (h2.dim l hl)).2 (Or.inl h)) henv,
      clip_clip sizes ro d2 _ env h2.dim
        (fun l hl h => (bdim_dim sizes d1 d2 l (h1.dim l hl) (h2.dim l hl)).2 (Or.inr h)) henv]
    rw [← h1.shape, ← h2.shape, h1.val env henv, h2.val env henv]

omit [CommSemiring R] in
theorem reshapeT_ok (t E : Tensor R) (shape : List Nat) (h : reshapeT t shape = .ok E) :
    E = ⟨shape, t.data⟩ := by
  unfold reshapeT at h
  split_ifs at h
  injection h with h
  exact h.symm

theorem lookup_zip_map' (sizes : Idx → Nat) (L : List Idx) (l : Idx) :
    ((L.zip (L.map sizes)).lookup l).getD 1 = if L.contains l then sizes l else 1 := by
  rw [lookup_zip_map]
  simp [List.contains_iff_mem]

/-- one operand, transposed to its sorted label order and reshaped with 1's, represents `T[L(env)]` -/
theorem rep_operand (sizes : Idx → Nat) (key : Idx → Nat) (ro L : List Idx) (T E : Tensor R)
    (hL : L.Nodup) (hsh : T.shape = L.map sizes)
    (hsort : sortBy key L = ro.filter (fun a => L.contains a))
    (hE : expandOp key ro (L, T) = .ok E) :
    Rep sizes ro (fun l => if L.contains l then sizes l else 1) E (fun env => T.get (L.map env)) := by
  have hp : (sortBy key L).Perm L := perm_sortBy key L
  have hsubL : ∀ l ∈ L, l ∈ ro := by
    intro l hl
    have : l ∈ sortBy key L := hp.mem_iff.mpr hl
    rw [hsort] at this
    exact (List.mem_filter.mp this).1
  unfold expandOp at hE
  simp only at hE
  generalize htA : (if L = sortBy key L then T else transposeT T ((sortBy key L).map fun k => L.idxOf k)) = tArg at hE
  -- shape and entries of the transposed operand
  have hA : tArg.shape = (sortBy key L).map sizes ∧
      ∀ env : Env, (∀ l ∈ L, env l < sizes l) → tArg.get ((sortBy key L).map env) = T.get (L.map env) := by
    by_cases hLs : L = sortBy key L
    · rw [if_pos hLs] at htA
      subst htA
      refine ⟨by rw [hsh, ← hLs], ?_⟩
      intro env _
      rw [← hLs]
    · rw [if_neg hLs] at htA
      subst htA
      have hshape : (transposeT T ((sortBy key L).map fun k => L.idxOf k)).shape = (sortBy key L).map sizes := by
        unfold transposeT ofFn
        simp only [List.map_map]
        apply List.map_congr_left
        intro k hk
        have hkL : k ∈ L := hp.mem_iff.mp hk
        have hlt : L.idxOf k < L.length := List.idxOf_lt_length_iff.mpr hkL
        simp only [Function.comp, hsh, List.getD_eq_getElem?_getD, List.getElem?_map,
          List.getElem?_eq_getElem hlt, List.getElem_idxOf hlt, Option.map_some, Option.getD_some]
      refine ⟨hshape, ?_⟩
      intro env henv
      unfold transposeT
      rw [get_ofFn]
      · rw [hsh, List.length_map, transpose_index L (sortBy key L) env hL hp]
      · have := hshape
        unfold transposeT ofFn at this
        simp only at this
        rw [this]
        exact inRange_map sizes env _ (fun l hl => henv l (hp.mem_iff.mp hl))
  have hE' := reshapeT_ok _ _ _ hE
  have hshapeE : E.shape = ro.map (fun l => if L.contains l then sizes l else 1) := by
    rw [hE']
    simp only
    apply List.map_congr_left
    intro l _
    rw [hsh, lookup_zip_map']
  refine ⟨hshapeE, ?_, ?_⟩
  · intro l _
    split_ifs
    · exact Or.inl rfl
    · exact Or.inr rfl
  · intro env henv
    rw [hshapeE, clip_map]
    have hidx : (ro.map fun l => if (if L.contains l then sizes l else 1) = 1 then 0 else env l)
        = ro.map (fun l => if L.contains l then env l else 0) := by
      apply List.map_congr_left
      intro l hl
      by_cases h : L.contains l = true
      · simp only [h, if_true]
        by_cases h1 : sizes l = 1
        · have := henv l hl
          simp only [h1, if_true]; omega
        · simp [h1]
      · rw [if_neg h, if_neg h]; simp
    rw [hidx]
    have hget : E.get (ro.map fun l => if L.contains l then env l else 0)
        = tArg.data.getD (flatIdx (ro.map fun l => if L.contains l then sizes l else 1)
            (ro.map fun l => if L.contains l then env l else 0)) 0 := by
      unfold Tensor.get
      rw [hshapeE, hE']
    rw [hget, (flatIdx_expand sizes env (fun l => L.contains l) ro).1, ← hsort]
    have := hA.2 env (fun l hl => henv l (hsubL l hl))
    unfold Tensor.get at this
    rw [hA.1] at this
    exact this

/-- accumulating the product over a list of expanded operands -/
theorem rep_foldlM (sizes : Idx → Nat) (ro : List Idx) :
    ∀ (reps : List ((Idx → Nat) × Tensor R × (Env → R))) (d0 : Idx → Nat) (E0 : Tensor R) (G0 : Env → R) (P : Tensor R),
    Rep sizes ro d0 E0 G0 → (∀ x ∈ reps, Rep sizes ro x.1 x.2.1 x.2.2) →
    (reps.map (·.2.1)).foldlM (fun acc s => mulB acc s) E0 = .ok P →
    ∃ d, Rep sizes ro d P (fun e => G0 e * (reps.map fun x => x.2.2 e).prod) ∧
      (∀ l ∈ ro, (d0 l = sizes l ∨ ∃ x ∈ reps, x.1 l = sizes l) → d l = sizes l)
  | [], d0, E0, G0, P, h0, _, hP => by
    simp only [List.map_nil, List.foldlM_nil] at hP
    injection hP with hP
    subst hP
    refine ⟨d0, ?_, ?_⟩
    · simpa using h0
    · intro l _ h
      rcases h with h | ⟨x, hx, _⟩
      · exact h
      · simp at hx
  | x :: reps, d0, E0, G0, P, h0, hall, hP => by
    simp only [List.map_cons, List.foldlM_cons] at hP
    cases hm : mulB E0 x.2.1 with
    | error e => simp [hm, bind, Except.bind] at hP
    | ok P1 =>
      simp only [hm, bind, Except.bind] at hP
      have hx := hall x (List.mem_cons_self)
      have h1 := Rep.mul h0 hx hm
      obtain ⟨d, hd, hcov⟩ := rep_foldlM sizes ro reps _ P1 _ P h1
        (fun y hy => hall y (List.mem_cons_of_mem _ hy)) hP
      refine ⟨d, ?_, ?_⟩
      · have : (fun e => G0 e * x.2.2 e * (reps.map fun y => y.2.2 e).prod)
            = (fun e => G0 e * ((x :: reps).map fun y => y.2.2 e).prod) := by
          funext e
          simp only [List.map_cons, List.prod_cons]
          ring
        rw [← this]
        exact hd
      · intro l hl h
        apply hcov l hl
        rcases h with h | ⟨y, hy, hyl⟩
        · exact Or.inl ((bdim_dim sizes d0 x.1 l (h0.dim l hl) (hx.dim l hl)).2 (Or.inl h))
        · rcases List.mem_cons.mp hy with rfl | hy
          · exact Or.inl ((bdim_dim sizes d0 y.1 l (h0.dim l hl) (hx.dim l hl)).2 (Or.inr hyl))
          · exact Or.inr ⟨y, hy, hyl⟩

omit [CommSemiring R] in
theorem mapM_ok {α β : Type} (f : α → Except String β) : ∀ (l : List α) (r : List β),
    l.mapM f = .ok r → List.Forall₂ (fun a b => f a = .ok b) l r
  | [], r, h => by
    simp only [List.mapM_nil, pure, Except.pure] at h
    injection h with h
    subst h
    exact List.Forall₂.nil
  | a :: l, r, h => by
    rw [List.mapM_cons] at h
    cases hfa : f a with
    | error e => simp [hfa, bind, Except.bind] at h
    | ok b =>
      simp only [hfa, bind, Except.bind] at h
      cases hl : l.mapM f with
      | error e => simp [hl] at h
      | ok bs =>
        simp only [hl, pure, Except.pure] at h
        injection h with h
        subst h
        exact List.Forall₂.cons hfa (mapM_ok f l bs hl)

theorem reps_of_forall₂ (sizes key : Idx → Nat) (ro : List Idx) :
    ∀ (ops : List (List Idx × Tensor R)) (ss : List (Tensor R)),
    (∀ p ∈ ops, p.1.Nodup) → (∀ p ∈ ops, p.2.shape = p.1.map sizes) →
    (∀ p ∈ ops, sortBy key p.1 = ro.filter (fun a => p.1.contains a)) →
    List.Forall₂ (fun p E => expandOp key ro p = .ok E) ops ss →
    ∃ reps : List ((Idx → Nat) × Tensor R × (Env → R)),
      reps.map (·.2.1) = ss ∧
      (∀ e : Env, reps.map (fun x => x.2.2 e) = ops.map (fun p => p.2.get (p.1.map e))) ∧
      (∀ x ∈ reps, Rep sizes ro x.1 x.2.1 x.2.2) ∧
      (∀ p ∈ ops, ∃ x ∈ reps, ∀ l, l ∈ p.1 → x.1 l = sizes l)
  | [], ss, _, _, _, h => by
    cases h
    exact ⟨[], rfl, fun _ => rfl, fun x hx => by simp at hx, fun p hp => by simp at hp⟩
  | p :: ops, ss, hnd, hsh, hsort, h => by
    cases h with
    | cons hE hrest =>
      rename_i E ss'
      obtain ⟨reps, h1, h2, h3, h4⟩ := reps_of_forall₂ sizes key ro ops ss'
        (fun q hq => hnd q (List.mem_cons_of_mem _ hq)) (fun q hq => hsh q (List.mem_cons_of_mem _ hq))
        (fun q hq => hsort q (List.mem_cons_of_mem _ hq)) hrest
      have hrep := rep_operand sizes key ro p.1 p.2 E (hnd p (List.mem_cons_self)) (hsh p (List.mem_cons_self))
        (hsort p (List.mem_cons_self)) hE
      refine ⟨((fun l => if p.1.contains l then sizes l else 1), E, (fun env => p.2.get (p.1.map env))) :: reps,
        by simp [h1], fun e => by simp [h2 e], ?_, ?_⟩
      · intro x hx
        rcases List.mem_cons.mp hx with rfl | hx
        · exact hrep
        · exact h3 x hx
      · intro q hq
        rcases List.mem_cons.mp hq with rfl | hq
        · refine ⟨_, List.mem_cons_self, ?_⟩
          intro l hl
          simp [hl]
        · obtain ⟨x, hx, hxl⟩ := h4 q hq
          exact ⟨x, List.mem_cons_of_mem _ hx, hxl⟩

theorem prodL_eq_prod : ∀ (l : List R), l ≠ [] → prodL l = l.prod
  | [], h => absurd rfl h
  | [x], _ => by simp [prodL]
  | x :: y :: l, _ => by
    have := prodL_eq_prod (y :: l) (by simp)
    simp only [prodL, List.prod_cons] at this ⊢
    rw [this]

theorem bget_eq (sizes : Idx → Nat) (T : Tensor R) (L : List Idx) (env : Env) (hsh : T.shape = L.map sizes)
    (henv : ∀ l ∈ L, env l < sizes l) : bget T L env = T.get (L.map env) := by
  unfold bget
  rw [hsh]
  congr 1
  have : ∀ (L' : List Idx), (∀ l ∈ L', env l < sizes l) →
      List.zipWith (fun l d => if d = 1 then 0 else env l) L' (L'.map sizes) = L'.map env := by
    intro L'
    induction L' with
    | nil => intro _; simp
    | cons a L' ih =>
      intro h
      simp only [List.map_cons, List.zipWith_cons_cons]
      rw [ih (fun l hl => h l (List.mem_cons_of_mem _ hl))]
      have := h a (List.mem_cons_self)
      by_cases h1 : sizes a = 1
      · simp only [h1, if_true]; congr 1; omega
      · simp [h1]
  exact this L henv

/-- `reduce_sum` over the masked axes of a tensor with axes `ro` = nested sum over the masked labels -/
theorem reduceSum_eq (sizes : Idx → Nat) (ro : List Idx) (m : Idx → Bool) (P : Tensor R) (F : Env → R)
    (hro : ro.Nodup) (hshape : P.shape = ro.map sizes)
    (hval : ∀ e, EnvOK sizes ro e → P.get (ro.map e) = F e) :
    reduceSum P (ro.map m) = ofFn ((ro.filter fun l => !m l).map sizes) (fun oi =>
      sumLabels sizes (ro.filter m) (envOfList (ro.filter fun l => !m l) oi (fun _ => 0)) F) := by
  unfold reduceSum
  rw [hshape, dropMask_map, keepMask_map]
  apply ofFn_congr
  intro oi hoi
  rw [← sum_allIdx_eq_sumLabels]
  congr 1
  apply List.map_congr_left
  intro si hsi
  have hsi' := mem_allIdx _ _ hsi
  have hOnd : (ro.filter fun l => !m l).Nodup := hro.filter _
  have hSnd : (ro.filter m).Nodup := hro.filter _
  generalize he0 : envOfList (ro.filter fun l => !m l) oi (fun _ => 0) = env0
  generalize he : envOfList (ro.filter m) si env0 = e
  have hagree : ∀ l ∈ (ro.filter fun l => !m l), e l = env0 l := by
    intro l hl
    rw [← he]
    apply envOfList_of_not_mem
    intro hl'
    have h1 := (List.mem_filter.mp hl).2
    have h2 := (List.mem_filter.mp hl').2
    simp [h2] at h1
  have hO : (ro.filter fun l => !m l).map e = oi := by
    rw [List.map_congr_left hagree, ← he0]
    apply map_envOfList _ _ _ hOnd
    rw [length_of_inRange _ _ hoi, List.length_map]
  have hS : (ro.filter m).map e = si := by
    rw [← he]
    apply map_envOfList _ _ _ hSnd
    rw [length_of_inRange _ _ hsi', List.length_map]
  have hmerge : merge (ro.map m) oi si = ro.map e := by
    have := merge_map m e ro
    rw [hO, hS] at this
    exact this
  rw [hmerge]
  apply hval
  intro l hl
  by_cases hm : m l = true
  · rw [← he]
    exact envOfList_lt sizes _ _ _ hSnd hsi' l (List.mem_filter.mpr ⟨hl, hm⟩)
  · have hlO : l ∈ (ro.filter fun l => !m l) := List.mem_filter.mpr ⟨hl, by simpa using hm⟩
    rw [hagree l hlO, ← he0]
    exact envOfList_lt sizes _ _ _ hOnd hoi l hlO

/-- **Single step = reference** (any number of operands, all shapes, all data): whenever
    `tensor_einsum_reduce_sum` returns a tensor, it is the reference contraction of its sub-expression. -/
theorem stepReduceSum_ok (sizes key : Idx → Nat) (ops : List (List Idx × Tensor R)) (final O : List Idx) (T : Tensor R)
    (hsh : ∀ p ∈ ops, p.2.shape = p.1.map sizes)
    (h : stepReduceSum sizes key ops final = .ok (O, T)) :
    T = einsumRef sizes ops O := by
  unfold stepReduceSum at h
  by_cases hdup : ops.any (fun p => hasDup p.1) = true
  · rw [if_pos hdup] at h
    have hall : (ops.flatMap fun p => p.1.zip p.2.shape).all (fun q => q.2 = sizes q.1) = true := by
      rw [List.all_eq_true]
      intro q hq
      obtain ⟨p, hp, hqp⟩ := List.mem_flatMap.mp hq
      rw [hsh p hp] at hqp
      have : ∀ (L : List Idx), q ∈ L.zip (L.map sizes) → q.2 = sizes q.1 := by
        intro L
        induction L with
        | nil => intro h0; simp at h0
        | cons a L ih =>
          intro h0
          simp only [List.map_cons, List.zip_cons_cons, List.mem_cons] at h0
          rcases h0 with rfl | h0
          · rfl
          · exact ih h0
      simpa using this p.1 hqp
    rw [if_pos hall] at h
    simp only [Except.ok.injEq, Prod.mk.injEq] at h
    obtain ⟨rfl, rfl⟩ := h
    rfl
  · rw [if_neg hdup] at h
    simp only at h
    generalize hlab : labelSet (ops.map (·.1)).flatten = labels at h
    by_cases hk : keysDistinct key labels = true
    · simp only [hk, Bool.not_true, Bool.false_eq_true, if_false] at h
      generalize hro : sortBy key labels = ro at h
      cases hm : ops.mapM (expandOp key ro) with
      | error e => rw [hm] at h; simp at h
      | ok ss =>
        rw [hm] at h
        simp only at h
        cases hmul : mulAll ss with
        | error e => rw [hmul] at h; simp at h
        | ok prod =>
          rw [hmul] at h
          simp only [Except.ok.injEq, Prod.mk.injEq] at h
          obtain ⟨hO, hT⟩ := h
          -- facts about labels
          have hnd : ∀ p ∈ ops, p.1.Nodup := by
            intro p hp
            apply nodup_of_hasDup_false
            by_contra hc
            apply hdup
            rw [List.any_eq_true]
            exact ⟨p, hp, by simpa using hc⟩
          have hlabnd : labels.Nodup := by rw [← hlab]; exact nodup_labelSet _
          have hinj : InjOnList key labels := injOn_of_keysDistinct key labels hk
          have hperm : ro.Perm labels := by rw [← hro]; exact perm_sortBy key labels
          have hrond : ro.Nodup := hperm.nodup_iff.mpr hlabnd
          have hmemlab : ∀ a, a ∈ labels ↔ ∃ p ∈ ops, a ∈ p.1 := by
            intro a
            rw [← hlab, mem_labelSet, List.mem_flatten]
            constructor
            · rintro ⟨l, hl, ha⟩
              obtain ⟨p, hp, rfl⟩ := List.mem_map.mp hl
              exact ⟨p, hp, ha⟩
            · rintro ⟨p, hp, ha⟩
              exact ⟨p.1, List.mem_map.mpr ⟨p, hp, rfl⟩, ha⟩
          have hsort : ∀ p ∈ ops, sortBy key p.1 = ro.filter (fun a => p.1.contains a) := by
            intro p hp
            rw [← hro]
            exact sortBy_eq_filter key labels p.1 hinj hlabnd (hnd p hp)
              (fun a ha => (hmemlab a).mpr ⟨p, hp, ha⟩)
          obtain ⟨reps, hr1, hr2, hr3, hr4⟩ := reps_of_forall₂ sizes key ro ops ss hnd hsh hsort (mapM_ok _ _ _ hm)
          -- the product
          unfold mulAll at hmul
          cases hrev : ss.reverse with
          | nil => rw [hrev] at hmul; simp at hmul
          | cons t rest =>
            rw [hrev] at hmul
            simp only at hmul
            have hrr : (reps.reverse).map (·.2.1) = t :: rest := by rw [List.map_reverse, hr1, hrev]
            cases hrepsrev : reps.reverse with
            | nil => rw [hrepsrev] at hrr; simp at hrr
            | cons x0 reps' =>
              rw [hrepsrev] at hrr
              simp only [List.map_cons, List.cons.injEq] at hrr
              obtain ⟨hx0, hrest⟩ := hrr
              have hmem0 : ∀ x, x ∈ reps ↔ x = x0 ∨ x ∈ reps' := by
                intro x
                rw [← List.mem_reverse, hrepsrev, List.mem_cons]
              rw [← hx0, ← hrest] at hmul
              obtain ⟨d, hd, hcov⟩ := rep_foldlM sizes ro reps' x0.1 x0.2.1 x0.2.2 prod
                (hr3 x0 ((hmem0 x0).mpr (Or.inl rfl))) (fun x hx => hr3 x ((hmem0 x).mpr (Or.inr hx))) hmul
              have hdsz : ∀ l ∈ ro, d l = sizes l := by
                intro l hl
                apply hcov l hl
                obtain ⟨p, hp, hlp⟩ := (hmemlab l).mp (hperm.mem_iff.mp hl)
                obtain ⟨x, hx, hxl⟩ := hr4 p hp
                rcases (hmem0 x).mp hx with rfl | hx'
                · exact Or.inl (hxl l hlp)
                · exact Or.inr ⟨x, hx', hxl l hlp⟩
              have hshape : prod.shape = ro.map sizes := by
                rw [hd.shape]
                exact List.map_congr_left hdsz
              have hopsne : ops ≠ [] := by
                intro h0
                subst h0
                have := mapM_ok _ _ _ hm
                cases this
                simp at hrev
              have hval : ∀ e, EnvOK sizes ro e → prod.get (ro.map e) = termProd ops e := by
                intro e he
                have hv := hd.val e he
                rw [hshape, clip_map] at hv
                have hid : (ro.map fun l => if sizes l = 1 then 0 else e l) = ro.map e := by
                  apply List.map_congr_left
                  intro l hl
                  by_cases h1 : sizes l = 1
                  · have := he l hl
                    simp only [h1, if_true]; omega
                  · simp [h1]
                rw [hid] at hv
                rw [hv]
                have : x0.2.2 e * (reps'.map fun x => x.2.2 e).prod = ((x0 :: reps').map fun x => x.2.2 e).prod := by
                  simp
                rw [this, ← hrepsrev, List.map_reverse, List.prod_reverse, hr2 e]
                unfold termProd
                rw [prodL_eq_prod _ (by simpa using hopsne)]
                congr 1
                apply List.map_congr_left
                intro p hp
                rw [bget_eq sizes p.2 p.1 e (hsh p hp)]
                intro l hl
                exact he l (hperm.mem_iff.mpr ((hmemlab l).mpr ⟨p, hp, hl⟩))
              -- the reduce_sum
              have hT' := reduceSum_eq sizes ro (fun l => !final.contains l) prod (termProd ops) hrond hshape hval
              have hOeq : (ro.filter fun l => !(!final.contains l)) = O := by
                rw [← hO]
                congr 1
                funext l
                simp
              rw [hOeq] at hT'
              rw [← hT, hT']
              unfold einsumRef
              apply ofFn_congr
              intro oi hoi
              -- same summed labels up to order
              have hOnd : O.Nodup := by rw [← hO]; exact hrond.filter _
              have hOmem : ∀ a, a ∈ O ↔ a ∈ ro ∧ a ∈ final := by
                intro a
                rw [← hO, List.mem_filter, List.contains_iff_mem]
              have hperm2 : (ro.filter fun l => !final.contains l).Perm (summedLabels (ops.map (·.1)) O) := by
                unfold summedLabels
                rw [List.perm_ext_iff_of_nodup (hrond.filter _) ((nodup_labelSet _).filter _)]
                intro a
                rw [hlab]
                simp only [List.mem_filter, hperm.mem_iff, Bool.not_eq_true', List.contains_eq_mem,
                  decide_eq_false_iff_not, hOmem]
                constructor
                · rintro ⟨h1, h2⟩
                  exact ⟨h1, fun h => h2 h.2⟩
                · rintro ⟨h1, h2⟩
                  exact ⟨h1, fun h => h2 ⟨h1, h⟩⟩
              rw [sumLabels_perm sizes _ hperm2 (hrond.filter _)]
    · simp [hk] at h

omit [CommSemiring R] in
/-- the labels returned by a step: the requested ones (inner-product branch) or the sorted axis order filtered -/
theorem stepReduceSum_labels [Zero R] [Add R] [Mul R] (sizes key : Idx → Nat) (ops : List (List Idx × Tensor R))
    (final O : List Idx) (T : Tensor R) (h : stepReduceSum sizes key ops final = .ok (O, T)) :
    O = final ∨ (keysDistinct key (labelSet (ops.map (·.1)).flatten) = true ∧
      O = (sortBy key (labelSet (ops.map (·.1)).flatten)).filter (final.contains ·)) := by
  unfold stepReduceSum at h
  by_cases hdup : ops.any (fun p => hasDup p.1) = true
  · rw [if_pos hdup] at h
    simp only at h
    split_ifs at h <;>
      first
        | (simp only [Except.ok.injEq, Prod.mk.injEq] at h; exact Or.inl h.1.symm)
        | (simp at h)
  · rw [if_neg hdup] at h
    simp only at h
    by_cases hk : keysDistinct key (labelSet (ops.map (·.1)).flatten) = true
    · simp only [hk, Bool.not_true, Bool.false_eq_true, if_false] at h
      cases hm : ops.mapM (expandOp key (sortBy key (labelSet (ops.map (·.1)).flatten))) with
      | error e => rw [hm] at h; simp at h
      | ok ss =>
        rw [hm] at h
        simp only at h
        cases hmul : mulAll ss with
        | error e => rw [hmul] at h; simp at h
        | ok prod =>
          rw [hmul] at h
          simp only [Except.ok.injEq, Prod.mk.injEq] at h
          exact Or.inr ⟨hk, h.1.symm⟩
    · simp [hk] at h

end rep

end TfPwaV.Einsum
