import TfPwaV.Proofs.AmpMix
/-!
Helper lemmas for `Props/C01i.lean`, part 5: ROW factors in the einsum of `DecayChain.get_amp` (`templates/Amp.lean.in`, `K = ℝ`).

`ampG` is `Chain.ampWith` with the D-functions of the lower vertices as a parameter as well.  If the top-vertex D-function
acquires a factor `χt(λ_b − λ_c)` on its column, every lower vertex a factor `χv(λ_a)` on its row, every alignment D-function a
factor `χa(λ)` on its row (the contracted index), and these factors multiply to ONE for every helicity configuration that the
einsum visits (`hcancel`), the chain amplitude is unchanged (`ampG_gauge`), hence the group amplitude and the density
(`densityG_gauge`).  The helicity configurations visited are those whose entries lie in the index lists (`allowed`).
-/
open BigOperators Matrix
open TfPwaV.ScalarR
namespace TfPwaV.AmpR
open TfPwaV.LineShapeR TfPwaV.SpinlessR TfPwaV.Wigner TfPwaV.FrameAlg TfPwaV.UnitaryMix

/-- the summand of the einsum with ALL D-functions as parameters -/
def Chain.termG (C : Chain) (Dtop : Int → Int → Cx) (Dv : Vertex → Int → Int → Cx) (Dal : Align → Int → Int → Cx)
    (la : Int) (ext h : Hel) : Cx :=
  (((C.top.H (h C.top.b) (h C.top.c)).mul (Dtop la (h C.top.b - h C.top.c))).mul
    (cprod (C.rest.map fun v => (v.H (h v.b) (h v.c)).mul (Dv v (h v.a) (h v.b - h v.c))))).mul
    (cprod (C.aligns.map fun A => Dal A (h A.p) (ext A.p)))

def Chain.ampG (C : Chain) (Dtop : Int → Int → Cx) (Dv : Vertex → Int → Int → Cx) (Dal : Align → Int → Int → Cx)
    (la : Int) (ext : Hel) : Cx :=
  (C.total.mul (cprod C.props)).mul (sumOver C.inner (C.termG Dtop Dv Dal la ext) ext)

def groupAmpG (cs : List Chain) (Dtop : Chain → Int → Int → Cx) (Dv : Chain → Vertex → Int → Int → Cx)
    (Dal : Chain → Align → Int → Int → Cx) (la : Int) (ext : Hel) : Cx :=
  csum (cs.map fun C => C.ampG (Dtop C) (Dv C) (Dal C) la ext)

def densityG (cs : List Chain) (Dtop : Chain → Int → Int → Cx) (Dv : Chain → Vertex → Int → Int → Cx)
    (Dal : Chain → Align → Int → Int → Cx) (topSpins : List Int) (finals : List (Nat × List Int)) : ℝ :=
  rsum (topSpins.map fun la => sumOverR finals (fun ext => (groupAmpG cs Dtop Dv Dal la ext).normSq) (fun _ => 0))

/-- with the stored D-functions of the lower vertices `ampG` is `ampWith` -/
theorem ampG_stored (C : Chain) (Dtop : Int → Int → Cx) (Dal : Align → Int → Int → Cx) (la : Int) (ext : Hel) :
    C.ampG Dtop (fun v => v.D) Dal la ext = C.ampWith Dtop Dal la ext := rfl

theorem densityG_stored (cs : List Chain) (Dtop : Chain → Int → Int → Cx) (Dal : Chain → Align → Int → Int → Cx)
    (tops : List Int) (finals : List (Nat × List Int)) :
    densityG cs Dtop (fun _ v => v.D) Dal tops finals = densityWith cs Dtop Dal tops finals := rfl

/-- replace every stored D-function of a chain -/
def Chain.setAll (C : Chain) (Dt : Int → Int → Cx) (Dv : Vertex → Int → Int → Cx) (Da : Align → Int → Int → Cx) : Chain :=
  { C with top := { C.top with D := Dt }, rest := C.rest.map fun v => { v with D := Dv v },
           aligns := C.aligns.map fun A => ⟨A.p, Da A⟩ }

/-- `densityG` IS the density of the executable model (`AmpR.density`, the function compared with `sum_amp`) for the chains with the
D-functions replaced -/
theorem density_setAll (cs : List Chain) (Dt : Chain → Int → Int → Cx) (Dv : Chain → Vertex → Int → Int → Cx)
    (Da : Chain → Align → Int → Int → Cx) (tops : List Int) (finals : List (Nat × List Int)) :
    density (cs.map fun C => C.setAll (Dt C) (Dv C) (Da C)) tops finals = densityG cs Dt Dv Da tops finals := by
  unfold AmpR.density densityWith densityG groupAmpWith groupAmpG
  simp only [List.map_map]
  congr 1
  apply List.map_congr_left
  intro la _
  apply sumOverR_congr
  intro ext
  congr 2
  apply List.map_congr_left
  intro C _
  simp only [Function.comp]
  unfold Chain.ampWith Chain.ampG Chain.setAll
  congr 1
  congr 1
  funext h
  unfold Chain.term Chain.termG
  simp only [List.map_map]
  rfl

/-! ### congruence of the nested sums on the configurations they visit -/

theorem sumOver_congr_reach (allowed : Nat → Int → Prop) (L : List (Nat × List Int))
    (hL : ∀ x ∈ L, ∀ m ∈ x.2, allowed x.1 m) (S : Nat → Prop) (f g : Hel → Cx)
    (hfg : ∀ h, (∀ p, (S p ∨ p ∈ L.map Prod.fst) → allowed p (h p)) → toC (f h) = toC (g h))
    (h0 : Hel) (h0S : ∀ p, S p → allowed p (h0 p)) : toC (sumOver L f h0) = toC (sumOver L g h0) := by
  induction L generalizing S h0 with
  | nil =>
    apply hfg
    intro p hp
    rcases hp with hp | hp
    · exact h0S p hp
    · simp at hp
  | cons x r ih =>
    simp only [sumOver, toC_csum, List.map_map]
    congr 1
    apply List.map_congr_left
    intro l hl
    simp only [Function.comp]
    apply ih (fun y hy => hL y (List.mem_cons_of_mem _ hy)) (fun p => S p ∨ p = x.1)
    · intro h hh
      apply hfg
      intro p hp
      apply hh
      rcases hp with hp | hp
      · exact Or.inl (Or.inl hp)
      · simp only [List.map_cons, List.mem_cons] at hp
        rcases hp with hp | hp
        · exact Or.inl (Or.inr hp)
        · exact Or.inr hp
    · intro p hp
      by_cases hpx : p = x.1
      · subst hpx
        rw [Hel.set_apply_self]
        exact hL x (List.mem_cons_self ..) l hl
      · rw [Hel.set_apply_ne _ _ _ _ hpx]
        rcases hp with hp | hp
        · exact h0S p hp
        · exact absurd hp hpx

theorem sumOverR_congr_reach (allowed : Nat → Int → Prop) (L : List (Nat × List Int))
    (hL : ∀ x ∈ L, ∀ m ∈ x.2, allowed x.1 m) (S : Nat → Prop) (f g : Hel → ℝ)
    (hfg : ∀ h, (∀ p, (S p ∨ p ∈ L.map Prod.fst) → allowed p (h p)) → f h = g h)
    (h0 : Hel) (h0S : ∀ p, S p → allowed p (h0 p)) : sumOverR L f h0 = sumOverR L g h0 := by
  induction L generalizing S h0 with
  | nil =>
    apply hfg
    intro p hp
    rcases hp with hp | hp
    · exact h0S p hp
    · simp at hp
  | cons x r ih =>
    simp only [sumOverR]
    congr 1
    apply List.map_congr_left
    intro l hl
    apply ih (fun y hy => hL y (List.mem_cons_of_mem _ hy)) (fun p => S p ∨ p = x.1)
    · intro h hh
      apply hfg
      intro p hp
      apply hh
      rcases hp with hp | hp
      · exact Or.inl (Or.inl hp)
      · simp only [List.map_cons, List.mem_cons] at hp
        rcases hp with hp | hp
        · exact Or.inl (Or.inr hp)
        · exact Or.inr hp
    · intro p hp
      by_cases hpx : p = x.1
      · subst hpx
        rw [Hel.set_apply_self]
        exact hL x (List.mem_cons_self ..) l hl
      · rw [Hel.set_apply_ne _ _ _ _ hpx]
        rcases hp with hp | hp
        · exact h0S p hp
        · exact absurd hp hpx

/-! ### row factors -/

/-- the product of all row / column factors of one chain at the helicity configuration `h` -/
noncomputable def Chain.gaugeProd (C : Chain) (χt : Int → ℂ) (χv : Vertex → Int → ℂ) (χa : Align → Int → ℂ) (h : Hel) : ℂ :=
  χt (h C.top.b - h C.top.c) * (C.rest.map fun v => χv v (h v.a)).prod * (C.aligns.map fun A => χa A (h A.p)).prod

/-- one summand: the factors come out as `gaugeProd` -/
theorem termG_gauge (C : Chain) (Dtop' Dtop : Int → Int → Cx) (Dv' : Vertex → Int → Int → Cx)
    (Dal' Dal : Align → Int → Int → Cx) (χt : Int → ℂ) (χv : Vertex → Int → ℂ) (χa : Align → Int → ℂ) (la : Int)
    (ht : ∀ δ, toC (Dtop' la δ) = toC (Dtop la δ) * χt δ)
    (hv : ∀ v ∈ C.rest, ∀ l δ, toC (Dv' v l δ) = χv v l * toC (v.D l δ))
    (ha : ∀ A ∈ C.aligns, ∀ l m, toC (Dal' A l m) = χa A l * toC (Dal A l m)) (ext h : Hel) :
    toC (C.termG Dtop' Dv' Dal' la ext h) = C.gaugeProd χt χv χa h * toC (C.term Dtop Dal la ext h) := by
  unfold Chain.termG Chain.term Chain.gaugeProd
  simp only [toC_mul, toC_cprod, List.map_map]
  have e1 : (C.rest.map (toC ∘ fun v => (v.H (h v.b) (h v.c)).mul (Dv' v (h v.a) (h v.b - h v.c)))).prod =
      (C.rest.map fun v => χv v (h v.a)).prod * (C.rest.map (toC ∘ fun v => v.amp h)).prod := by
    rw [← List.prod_map_mul]
    congr 1
    apply List.map_congr_left
    intro v hvm
    simp only [Function.comp, Vertex.amp, toC_mul, hv v hvm]
    ring
  have e2 : (C.aligns.map (toC ∘ fun A => Dal' A (h A.p) (ext A.p))).prod =
      (C.aligns.map fun A => χa A (h A.p)).prod * (C.aligns.map (toC ∘ fun A => Dal A (h A.p) (ext A.p))).prod := by
    rw [← List.prod_map_mul]
    congr 1
    apply List.map_congr_left
    intro A hAm
    simp only [Function.comp, ha A hAm]
  rw [e1, e2, ht]
  ring

/-- **one chain**: if the factors multiply to one on every configuration the einsum visits, the amplitude component is
unchanged.  `allowed p m`: `m` is a helicity of particle `p`; the index lists contain allowed helicities only. -/
theorem ampG_gauge (allowed : Nat → Int → Prop) (S : Nat → Prop) (C : Chain)
    (hinner : ∀ x ∈ C.inner, ∀ m ∈ x.2, allowed x.1 m)
    (Dtop' Dtop : Int → Int → Cx) (Dv' : Vertex → Int → Int → Cx)
    (Dal' Dal : Align → Int → Int → Cx) (χt : Int → ℂ) (χv : Vertex → Int → ℂ) (χa : Align → Int → ℂ) (la : Int)
    (ht : ∀ δ, toC (Dtop' la δ) = toC (Dtop la δ) * χt δ)
    (hv : ∀ v ∈ C.rest, ∀ l δ, toC (Dv' v l δ) = χv v l * toC (v.D l δ))
    (ha : ∀ A ∈ C.aligns, ∀ l m, toC (Dal' A l m) = χa A l * toC (Dal A l m))
    (hcancel : ∀ h, (∀ p, (S p ∨ p ∈ C.inner.map Prod.fst) → allowed p (h p)) → C.gaugeProd χt χv χa h = 1)
    (ext : Hel) (hext : ∀ p, S p → allowed p (ext p)) :
    toC (C.ampG Dtop' Dv' Dal' la ext) = toC (C.ampWith Dtop Dal la ext) := by
  unfold Chain.ampG Chain.ampWith
  simp only [toC_mul]
  congr 1
  apply sumOver_congr_reach allowed C.inner hinner S _ _ _ ext hext
  intro h hh
  rw [termG_gauge C Dtop' Dtop Dv' Dal' Dal χt χv χa la ht hv ha ext h, hcancel h hh, one_mul]

theorem toC_inj {a b : Cx} (h : toC a = toC b) : a = b := by
  have h1 := congrArg Complex.re h
  have h2 := congrArg Complex.im h
  cases a; cases b
  simp only [toC] at h1 h2
  simp [h1, h2]

/-- **all chains, the density**: top helicities `tops` arbitrary, final index lists `finals` with allowed helicities. -/
theorem densityG_gauge (allowed : Nat → Int → Prop) (cs : List Chain) (tops : List Int) (finals : List (Nat × List Int))
    (hfinals : ∀ x ∈ finals, ∀ m ∈ x.2, allowed x.1 m)
    (hinner : ∀ C ∈ cs, ∀ x ∈ C.inner, ∀ m ∈ x.2, allowed x.1 m)
    (Dtop' Dtop : Chain → Int → Int → Cx) (Dv' : Chain → Vertex → Int → Int → Cx)
    (Dal' Dal : Chain → Align → Int → Int → Cx)
    (χt : Chain → Int → ℂ) (χv : Chain → Vertex → Int → ℂ) (χa : Chain → Align → Int → ℂ)
    (ht : ∀ C ∈ cs, ∀ la ∈ tops, ∀ δ, toC (Dtop' C la δ) = toC (Dtop C la δ) * χt C δ)
    (hv : ∀ C ∈ cs, ∀ v ∈ C.rest, ∀ l δ, toC (Dv' C v l δ) = χv C v l * toC (v.D l δ))
    (ha : ∀ C ∈ cs, ∀ A ∈ C.aligns, ∀ l m, toC (Dal' C A l m) = χa C A l * toC (Dal C A l m))
    (hcancel : ∀ C ∈ cs, ∀ h, (∀ p, (p ∈ finals.map Prod.fst ∨ p ∈ C.inner.map Prod.fst) → allowed p (h p)) →
      C.gaugeProd (χt C) (χv C) (χa C) h = 1) :
    densityG cs Dtop' Dv' Dal' tops finals = densityWith cs Dtop Dal tops finals := by
  unfold densityG densityWith
  congr 1
  apply List.map_congr_left
  intro la hla
  apply sumOverR_congr_reach allowed finals hfinals (fun _ => False)
  · intro ext hext
    congr 1
    apply toC_inj
    unfold groupAmpG groupAmpWith
    rw [toC_csum, toC_csum, List.map_map, List.map_map]
    congr 1
    apply List.map_congr_left
    intro C hC
    simp only [Function.comp]
    exact ampG_gauge allowed (fun p => p ∈ finals.map Prod.fst) C (hinner C hC) (Dtop' C) (Dtop C) (Dv' C) (Dal' C) (Dal C)
      (χt C) (χv C) (χa C) la (ht C hC la hla) (hv C hC) (ha C hC) (hcancel C hC) ext
      (fun p hp => hext p (Or.inr hp))
  · intro p hp
    exact absurd hp id

/-! ### row AND column factors: the external (final-state) helicities carry one common phase -/

/-- one summand with column factors `ψ A (ext A.p)` on the alignment D-functions as well -/
theorem termG_gauge_ext (C : Chain) (Dtop' Dtop : Int → Int → Cx) (Dv' : Vertex → Int → Int → Cx)
    (Dal' Dal : Align → Int → Int → Cx) (χt : Int → ℂ) (χv : Vertex → Int → ℂ) (χa ψ : Align → Int → ℂ) (la : Int)
    (ht : ∀ δ, toC (Dtop' la δ) = toC (Dtop la δ) * χt δ)
    (hv : ∀ v ∈ C.rest, ∀ l δ, toC (Dv' v l δ) = χv v l * toC (v.D l δ))
    (ha : ∀ A ∈ C.aligns, ∀ l m, toC (Dal' A l m) = χa A l * toC (Dal A l m) * ψ A m) (ext h : Hel) :
    toC (C.termG Dtop' Dv' Dal' la ext h) =
      C.gaugeProd χt χv χa h * (C.aligns.map fun A => ψ A (ext A.p)).prod * toC (C.term Dtop Dal la ext h) := by
  unfold Chain.termG Chain.term Chain.gaugeProd
  simp only [toC_mul, toC_cprod, List.map_map]
  have e1 : (C.rest.map (toC ∘ fun v => (v.H (h v.b) (h v.c)).mul (Dv' v (h v.a) (h v.b - h v.c)))).prod =
      (C.rest.map fun v => χv v (h v.a)).prod * (C.rest.map (toC ∘ fun v => v.amp h)).prod := by
    rw [← List.prod_map_mul]
    congr 1
    apply List.map_congr_left
    intro v hvm
    simp only [Function.comp, Vertex.amp, toC_mul, hv v hvm]
    ring
  have e2 : (C.aligns.map (toC ∘ fun A => Dal' A (h A.p) (ext A.p))).prod =
      ((C.aligns.map fun A => χa A (h A.p)).prod * (C.aligns.map fun A => ψ A (ext A.p)).prod) *
        (C.aligns.map (toC ∘ fun A => Dal A (h A.p) (ext A.p))).prod := by
    rw [← List.prod_map_mul, ← List.prod_map_mul]
    congr 1
    apply List.map_congr_left
    intro A hAm
    simp only [Function.comp, ha A hAm]
    ring
  rw [e1, e2, ht]
  ring

/-- **one chain**: if on every configuration the einsum visits all factors multiply to `Ξ` (a number that may depend on the
external helicities `ext` only), the amplitude component is multiplied by `Ξ`. -/
theorem ampG_gauge_ext (allowed : Nat → Int → Prop) (S : Nat → Prop) (C : Chain)
    (hinner : ∀ x ∈ C.inner, ∀ m ∈ x.2, allowed x.1 m)
    (Dtop' Dtop : Int → Int → Cx) (Dv' : Vertex → Int → Int → Cx)
    (Dal' Dal : Align → Int → Int → Cx) (χt : Int → ℂ) (χv : Vertex → Int → ℂ) (χa ψ : Align → Int → ℂ) (la : Int)
    (ht : ∀ δ, toC (Dtop' la δ) = toC (Dtop la δ) * χt δ)
    (hv : ∀ v ∈ C.rest, ∀ l δ, toC (Dv' v l δ) = χv v l * toC (v.D l δ))
    (ha : ∀ A ∈ C.aligns, ∀ l m, toC (Dal' A l m) = χa A l * toC (Dal A l m) * ψ A m)
    (ext : Hel) (hext : ∀ p, S p → allowed p (ext p)) (Ξ : ℂ)
    (hcancel : ∀ h, (∀ p, (S p ∨ p ∈ C.inner.map Prod.fst) → allowed p (h p)) →
      C.gaugeProd χt χv χa h * (C.aligns.map fun A => ψ A (ext A.p)).prod = Ξ) :
    toC (C.ampG Dtop' Dv' Dal' la ext) = Ξ * toC (C.ampWith Dtop Dal la ext) := by
  -- a summand `g` with `toC (g h) = Ξ · toC (term h)`
  let g : Hel → Cx := fun h => (⟨Ξ.re, Ξ.im⟩ : Cx).mul (C.term Dtop Dal la ext h)
  have hΞ : toC (⟨Ξ.re, Ξ.im⟩ : Cx) = Ξ := by apply Complex.ext <;> simp [toC]
  have h1 : toC (sumOver C.inner (C.termG Dtop' Dv' Dal' la ext) ext) = toC (sumOver C.inner g ext) := by
    apply sumOver_congr_reach allowed C.inner hinner S _ _ _ ext hext
    intro h hh
    rw [termG_gauge_ext C Dtop' Dtop Dv' Dal' Dal χt χv χa ψ la ht hv ha ext h, hcancel h hh]
    simp only [g, toC_mul, hΞ]
  have h2 : toC (sumOver C.inner g ext) = Ξ * toC (sumOver C.inner (C.term Dtop Dal la ext) ext) :=
    toC_sumOver_smul Ξ C.inner g (C.term Dtop Dal la ext) (fun h => by simp only [g, toC_mul, hΞ]) ext
  unfold Chain.ampG Chain.ampWith
  simp only [toC_mul]
  rw [h1, h2]
  ring

/-- **all chains, the density**: every chain acquires the SAME unit-modulus factor `Ξ ext` on the component `ext` of its tensor -/
theorem densityG_gauge_ext (allowed : Nat → Int → Prop) (cs : List Chain) (tops : List Int) (finals : List (Nat × List Int))
    (hfinals : ∀ x ∈ finals, ∀ m ∈ x.2, allowed x.1 m)
    (hinner : ∀ C ∈ cs, ∀ x ∈ C.inner, ∀ m ∈ x.2, allowed x.1 m)
    (Dtop' Dtop : Chain → Int → Int → Cx) (Dv' : Chain → Vertex → Int → Int → Cx)
    (Dal' Dal : Chain → Align → Int → Int → Cx)
    (χt : Chain → Int → ℂ) (χv : Chain → Vertex → Int → ℂ) (χa ψ : Chain → Align → Int → ℂ) (Ξ : Hel → ℂ)
    (hΞ : ∀ ext, (∀ p, p ∈ finals.map Prod.fst → allowed p (ext p)) → Complex.normSq (Ξ ext) = 1)
    (ht : ∀ C ∈ cs, ∀ la ∈ tops, ∀ δ, toC (Dtop' C la δ) = toC (Dtop C la δ) * χt C δ)
    (hv : ∀ C ∈ cs, ∀ v ∈ C.rest, ∀ l δ, toC (Dv' C v l δ) = χv C v l * toC (v.D l δ))
    (ha : ∀ C ∈ cs, ∀ A ∈ C.aligns, ∀ l m, toC (Dal' C A l m) = χa C A l * toC (Dal C A l m) * ψ C A m)
    (hcancel : ∀ C ∈ cs, ∀ ext, (∀ p, p ∈ finals.map Prod.fst → allowed p (ext p)) →
      ∀ h, (∀ p, (p ∈ finals.map Prod.fst ∨ p ∈ C.inner.map Prod.fst) → allowed p (h p)) →
      C.gaugeProd (χt C) (χv C) (χa C) h * (C.aligns.map fun A => ψ C A (ext A.p)).prod = Ξ ext) :
    densityG cs Dtop' Dv' Dal' tops finals = densityWith cs Dtop Dal tops finals := by
  unfold densityG densityWith
  congr 1
  apply List.map_congr_left
  intro la hla
  apply sumOverR_congr_reach allowed finals hfinals (fun _ => False)
  · intro ext hext
    have hext' : ∀ p, p ∈ finals.map Prod.fst → allowed p (ext p) := fun p hp => hext p (Or.inr hp)
    have hg : toC (groupAmpG cs Dtop' Dv' Dal' la ext) = Ξ ext * toC (groupAmpWith cs Dtop Dal la ext) := by
      unfold groupAmpG groupAmpWith
      have := csum_lin (Finset.univ : Finset Unit) (fun _ => Ξ ext) cs (fun C => C.ampG (Dtop' C) (Dv' C) (Dal' C) la ext)
        (fun _ C => C.ampWith (Dtop C) (Dal C) la ext)
        (fun C hC => by
          simp only [Finset.univ_unique, Finset.sum_singleton]
          exact ampG_gauge_ext allowed (fun p => p ∈ finals.map Prod.fst) C (hinner C hC) (Dtop' C) (Dtop C) (Dv' C) (Dal' C)
            (Dal C) (χt C) (χv C) (χa C) (ψ C) la (ht C hC la hla) (hv C hC) (ha C hC) ext hext' (Ξ ext)
            (hcancel C hC ext hext'))
      simpa using this
    rw [← normSq_toC, ← normSq_toC, hg, Complex.normSq_mul, hΞ ext hext', one_mul]
  · intro p hp
    exact absurd hp id

end TfPwaV.AmpR
