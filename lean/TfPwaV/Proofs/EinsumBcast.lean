import TfPwaV.Proofs.EinsumLoop

/-! C05 (einsum): one `tensor_einsum_reduce_sum` step on operands with numpy-style broadcasting: the axis of a
    label may have dimension 1 in an operand although the label is larger elsewhere. -/
namespace TfPwaV.Einsum

/-- dimension of the axis of label `l` in operand `p` (1 when the label is absent) -/
def dimOf {R : Type} (p : List Idx × Tensor R) (l : Idx) : Nat := ((p.1.zip p.2.shape).lookup l).getD 1

/-- the shape of the operand is compatible with the label sizes up to size-1 broadcasting -/
def BShape {R : Type} (sizes : Idx → Nat) (p : List Idx × Tensor R) : Prop :=
  p.2.shape = p.1.map (dimOf p) ∧ ∀ l ∈ p.1, dimOf p l = sizes l ∨ dimOf p l = 1

theorem lookup_zip_not_mem (l : Idx) : ∀ (L : List Idx) (s : List Nat), l ∉ L → (L.zip s).lookup l = none
  | [], _, _ => by simp
  | _ :: _, [], _ => by simp
  | a :: L, d :: s, h => by
    simp only [List.mem_cons, not_or] at h
    have : (l == a) = false := by simpa using h.1
    simp only [List.zip_cons_cons, List.lookup_cons, this]
    exact lookup_zip_not_mem l L s h.2

theorem dimOf_not_mem {R : Type} (p : List Idx × Tensor R) (l : Idx) (h : l ∉ p.1) : dimOf p l = 1 := by
  unfold dimOf
  rw [lookup_zip_not_mem l p.1 p.2.shape h]
  rfl

theorem dimOf_of_shape {R : Type} (L : List Idx) (T : Tensor R) (d : Idx → Nat) (hsh : T.shape = L.map d) (l : Idx)
    (hl : l ∈ L) : dimOf (L, T) l = d l := by
  unfold dimOf
  simp only [hsh, lookup_zip_map, hl, if_true]

/-- an operand with as many axes as labels, pairwise different labels: its shape is the map of `dimOf` -/
theorem shape_eq_map_dimOf {R : Type} (L : List Idx) (T : Tensor R) (hL : L.Nodup) (hlen : T.shape.length = L.length) :
    T.shape = L.map (dimOf (L, T)) := by
  unfold dimOf
  simp only
  generalize T.shape = s at hlen
  induction L generalizing s with
  | nil =>
    cases s with
    | nil => rfl
    | cons _ _ => simp at hlen
  | cons a L ih =>
    cases s with
    | nil => simp at hlen
    | cons d s =>
      have hnd := List.nodup_cons.mp hL
      simp only [List.length_cons, Nat.add_right_cancel_iff] at hlen
      simp only [List.map_cons, List.zip_cons_cons, List.lookup_cons, beq_self_eq_true, Option.getD_some,
        List.cons.injEq, true_and]
      rw [ih hnd.2 s hlen]
      apply List.map_congr_left
      intro l hl
      have hne : (l == a) = false := by
        have : l ≠ a := fun h => hnd.1 (h ▸ hl)
        simpa using this
      simp only [hne]
      rw [← ih hnd.2 s hlen]

theorem hasDup_eq_false_of_nodup : ∀ l : List Idx, l.Nodup → hasDup l = false
  | [], _ => by simp [hasDup, dedup]
  | x :: xs, h => by
    have hnd := List.nodup_cons.mp h
    have ih := hasDup_eq_false_of_nodup xs hnd.2
    simp only [hasDup, bne_eq_false_iff_eq, beq_iff_eq] at ih ⊢
    have hx : (dedup xs).contains x = false := by
      rw [← Bool.not_eq_true, List.contains_iff_mem, mem_dedup]
      exact hnd.1
    simp only [dedup, hx, Bool.false_eq_true, if_false, List.length_cons, ih]

section
variable {R : Type} [CommSemiring R]

omit [CommSemiring R] in
theorem bget_map_dim [Zero R] (T : Tensor R) (L : List Idx) (d : Idx → Nat) (env : Env) (hsh : T.shape = L.map d) :
    bget T L env = T.get (L.map fun l => if d l = 1 then 0 else env l) := by
  unfold bget
  rw [hsh]
  congr 1
  have : ∀ (L' : List Idx), List.zipWith (fun l dd => if dd = 1 then 0 else env l) L' (L'.map d)
      = L'.map fun l => if d l = 1 then 0 else env l := by
    intro L'
    induction L' with
    | nil => simp
    | cons a L' ih => simp only [List.map_cons, List.zipWith_cons_cons, ih]
  exact this L

omit [CommSemiring R] in
/-- an entry of a broadcast operand depends on the assignment only at the labels whose axis is not of size 1 -/
theorem bget_congr_b [Zero R] (T : Tensor R) (L : List Idx) (e1 e2 : Env) (hsh : T.shape = L.map (dimOf (L, T)))
    (h : ∀ x ∈ L, dimOf (L, T) x ≠ 1 → e1 x = e2 x) : bget T L e1 = bget T L e2 := by
  rw [bget_map_dim T L _ e1 hsh, bget_map_dim T L _ e2 hsh]
  congr 1
  apply List.map_congr_left
  intro l hl
  by_cases h1 : dimOf (L, T) l = 1
  · simp [h1]
  · simp only [h1, if_false]
    exact h l hl h1

theorem tp_congr_b (ops : List (List Idx × Tensor R)) (e1 e2 : Env)
    (hsh : ∀ p ∈ ops, p.2.shape = p.1.map (dimOf p))
    (h : ∀ x, (∃ p ∈ ops, x ∈ p.1 ∧ dimOf p x ≠ 1) → e1 x = e2 x) : tp ops e1 = tp ops e2 := by
  unfold tp
  congr 1
  apply List.map_congr_left
  intro p hp
  exact bget_congr_b p.2 p.1 e1 e2 (hsh p hp) (fun x hx hd => h x ⟨p, hp, hx, hd⟩)

theorem sumLabels_sizes_congr (s1 s2 : Idx → Nat) (f : Env → R) : ∀ (ls : List Idx) (env : Env),
    (∀ l ∈ ls, s1 l = s2 l) → sumLabels s1 ls env f = sumLabels s2 ls env f
  | [], _, _ => rfl
  | l :: ls, env, h => by
    simp only [sumLabels]
    rw [h l List.mem_cons_self]
    congr 1
    apply List.map_congr_left
    intro v _
    exact sumLabels_sizes_congr s1 s2 f ls _ (fun x hx => h x (List.mem_cons_of_mem _ hx))

/-- change of the reference sizes of an expanded operand: from the operand's own dimensions to the label sizes -/
theorem Rep.rebase {sizes dp : Idx → Nat} {ro : List Idx} {d : Idx → Nat} {E : Tensor R} {G : Env → R}
    (h : Rep dp ro d E G) (hdp : ∀ l ∈ ro, dp l = sizes l ∨ dp l = 1) (hpos : ∀ l ∈ ro, 0 < sizes l) :
    Rep sizes ro d E (fun env => G (fun l => if d l = 1 then 0 else env l)) := by
  refine ⟨h.shape, ?_, ?_⟩
  · intro l hl
    rcases h.dim l hl with h1 | h1
    · rcases hdp l hl with h2 | h2
      · left; rw [h1, h2]
      · right; rw [h1, h2]
    · right; exact h1
  · intro env henv
    have hok : EnvOK dp ro (fun l => if d l = 1 then 0 else env l) := by
      intro l hl
      show (if d l = 1 then 0 else env l) < dp l
      by_cases h1 : d l = 1
      · rw [if_pos h1]
        rcases hdp l hl with h2 | h2
        · rw [h2]; exact hpos l hl
        · rw [h2]; exact Nat.one_pos
      · rw [if_neg h1]
        have hd := (h.dim l hl).resolve_right h1
        rcases hdp l hl with h2 | h2
        · rw [h2]; exact henv l hl
        · exfalso; rw [hd] at h1; exact h1 h2
    have hv := h.val _ hok
    rw [← hv, h.shape, clip_map, clip_map]
    congr 1
    apply List.map_congr_left
    intro l _
    by_cases h1 : d l = 1 <;> simp [h1]

/-- one broadcast operand, transposed and reshaped with 1's, represents its broadcast entry `bget T L env` -/
theorem rep_operand_b (sizes key : Idx → Nat) (ro L : List Idx) (T E : Tensor R)
    (hL : L.Nodup) (hb : BShape sizes (L, T)) (hpos : ∀ l ∈ ro, 0 < sizes l)
    (hsort : sortBy key L = ro.filter (fun a => L.contains a))
    (hE : expandOp key ro (L, T) = .ok E) :
    Rep sizes ro (fun l => if L.contains l then dimOf (L, T) l else 1) E (fun env => bget T L env) := by
  have h0 := rep_operand (dimOf (L, T)) key ro L T E hL hb.1 hsort hE
  have hdp : ∀ l ∈ ro, dimOf (L, T) l = sizes l ∨ dimOf (L, T) l = 1 := by
    intro l _
    by_cases hl : l ∈ L
    · exact hb.2 l hl
    · exact Or.inr (dimOf_not_mem (L, T) l hl)
  have h1 := h0.rebase hdp hpos
  refine ⟨h1.shape, h1.dim, ?_⟩
  intro env henv
  rw [h1.val env henv, bget_map_dim T L _ env hb.1]
  congr 1
  apply List.map_congr_left
  intro l hl
  have : L.contains l = true := by simpa using hl
  simp only [this, if_true]

theorem reps_of_forall₂_b (sizes key : Idx → Nat) (ro : List Idx) (hpos : ∀ l ∈ ro, 0 < sizes l) :
    ∀ (ops : List (List Idx × Tensor R)) (ss : List (Tensor R)),
    (∀ p ∈ ops, p.1.Nodup) → (∀ p ∈ ops, BShape sizes p) →
    (∀ p ∈ ops, sortBy key p.1 = ro.filter (fun a => p.1.contains a)) →
    List.Forall₂ (fun p E => expandOp key ro p = .ok E) ops ss →
    ∃ reps : List ((Idx → Nat) × Tensor R × (Env → R)),
      reps.map (·.2.1) = ss ∧
      (∀ e : Env, reps.map (fun x => x.2.2 e) = ops.map (fun p => bget p.2 p.1 e)) ∧
      (∀ x ∈ reps, Rep sizes ro x.1 x.2.1 x.2.2) ∧
      (∀ p ∈ ops, ∃ x ∈ reps, ∀ l, l ∈ p.1 → x.1 l = dimOf p l)
  | [], ss, _, _, _, h => by
    cases h
    exact ⟨[], rfl, fun _ => rfl, fun x hx => by simp at hx, fun p hp => by simp at hp⟩
  | p :: ops, ss, hnd, hsh, hsort, h => by
    cases h with
    | cons hE hrest =>
      rename_i E ss'
      obtain ⟨reps, h1, h2, h3, h4⟩ := reps_of_forall₂_b sizes key ro hpos ops ss'
        (fun q hq => hnd q (List.mem_cons_of_mem _ hq)) (fun q hq => hsh q (List.mem_cons_of_mem _ hq))
        (fun q hq => hsort q (List.mem_cons_of_mem _ hq)) hrest
      have hrep := rep_operand_b sizes key ro p.1 p.2 E (hnd p (List.mem_cons_self)) (hsh p (List.mem_cons_self)) hpos
        (hsort p (List.mem_cons_self)) hE
      refine ⟨((fun l => if p.1.contains l then dimOf p l else 1), E, (fun env => bget p.2 p.1 env)) :: reps,
        by simp [h1], fun e => by simp [h2 e], ?_, ?_⟩
      · intro x hx
        rcases List.mem_cons.mp hx with rfl | hx
        · exact hrep
        · exact h3 x hx
      · intro q hq
        rcases List.mem_cons.mp hq with rfl | hq
        · refine ⟨_, List.mem_cons_self, ?_⟩
          intro l hl
          simp [hl]
        · obtain ⟨x, hx, hxl⟩ := h4 q hq
          exact ⟨x, List.mem_cons_of_mem _ hx, hxl⟩


/-- **Single step with broadcasting = reference.**  Operands without a repeated label whose axes have the label size
    or size 1; every label summed by the step has its full size in at least one operand.  Then the returned tensor
    has axes of the label size or 1, the full size wherever an operand had it, and its (broadcast) entries are those
    of the reference contraction of the sub-expression. -/
theorem step_b (sizes key : Idx → Nat) (ops : List (List Idx × Tensor R)) (final O : List Idx) (T : Tensor R)
    (hnd : ∀ p ∈ ops, p.1.Nodup) (hb : ∀ p ∈ ops, BShape sizes p) (hpos : ∀ l, 0 < sizes l)
    (hcov : ∀ l, (∃ p ∈ ops, l ∈ p.1) → l ∉ final → ∃ p ∈ ops, l ∈ p.1 ∧ dimOf p l = sizes l)
    (h : stepReduceSum sizes key ops final = .ok (O, T)) :
    O.Nodup ∧ BShape sizes (O, T) ∧
    (∀ l ∈ O, (∃ p ∈ ops, l ∈ p.1 ∧ dimOf p l = sizes l) → dimOf (O, T) l = sizes l) ∧
    ∀ env : Env, (∀ l ∈ O, env l < sizes l) → bget T O env = (einsumRef sizes ops O).get (O.map env) := by
  unfold stepReduceSum at h
  have hdup : ops.any (fun p => hasDup p.1) = false := by
    rw [List.any_eq_false]
    intro p hp
    rw [hasDup_eq_false_of_nodup p.1 (hnd p hp)]
    simp
  rw [hdup] at h
  simp only [Bool.false_eq_true, if_false] at h
  generalize hlab : labelSet (ops.map (·.1)).flatten = labels at h
  by_cases hk : keysDistinct key labels = true
  · simp only [hk, Bool.not_true, Bool.false_eq_true, if_false] at h
    generalize hro : sortBy key labels = ro at h
    cases hm : ops.mapM (expandOp key ro) with
    | error e => rw [hm] at h; simp at h
    | ok ss =>
      rw [hm] at h
      simp only at h
      cases hmul : mulAll ss with
      | error e => rw [hmul] at h; simp at h
      | ok prod =>
        rw [hmul] at h
        simp only [Except.ok.injEq, Prod.mk.injEq] at h
        obtain ⟨hO, hT⟩ := h
        have hlabnd : labels.Nodup := by rw [← hlab]; exact nodup_labelSet _
        have hinj : InjOnList key labels := injOn_of_keysDistinct key labels hk
        have hperm : ro.Perm labels := by rw [← hro]; exact perm_sortBy key labels
        have hrond : ro.Nodup := hperm.nodup_iff.mpr hlabnd
        have hmemlab : ∀ a, a ∈ labels ↔ ∃ p ∈ ops, a ∈ p.1 := by
          intro a
          rw [← hlab, mem_labelSet, List.mem_flatten]
          constructor
          · rintro ⟨l, hl, ha⟩
            obtain ⟨p, hp, rfl⟩ := List.mem_map.mp hl
            exact ⟨p, hp, ha⟩
          · rintro ⟨p, hp, ha⟩
            exact ⟨p.1, List.mem_map.mpr ⟨p, hp, rfl⟩, ha⟩
        have hsort : ∀ p ∈ ops, sortBy key p.1 = ro.filter (fun a => p.1.contains a) := by
          intro p hp
          rw [← hro]
          exact sortBy_eq_filter key labels p.1 hinj hlabnd (hnd p hp)
            (fun a ha => (hmemlab a).mpr ⟨p, hp, ha⟩)
        obtain ⟨reps, hr1, hr2, hr3, hr4⟩ := reps_of_forall₂_b sizes key ro (fun l _ => hpos l) ops ss hnd hb hsort
          (mapM_ok _ _ _ hm)
        unfold mulAll at hmul
        cases hrev : ss.reverse with
        | nil => rw [hrev] at hmul; simp at hmul
        | cons t rest =>
          rw [hrev] at hmul
          simp only at hmul
          have hrr : (reps.reverse).map (·.2.1) = t :: rest := by rw [List.map_reverse, hr1, hrev]
          cases hrepsrev : reps.reverse with
          | nil => rw [hrepsrev] at hrr; simp at hrr
          | cons x0 reps' =>
            rw [hrepsrev] at hrr
            simp only [List.map_cons, List.cons.injEq] at hrr
            obtain ⟨hx0, hrest⟩ := hrr
            have hmem0 : ∀ x, x ∈ reps ↔ x = x0 ∨ x ∈ reps' := by
              intro x
              rw [← List.mem_reverse, hrepsrev, List.mem_cons]
            rw [← hx0, ← hrest] at hmul
            obtain ⟨d, hd, hcovd⟩ := rep_foldlM sizes ro reps' x0.1 x0.2.1 x0.2.2 prod
              (hr3 x0 ((hmem0 x0).mpr (Or.inl rfl))) (fun x hx => hr3 x ((hmem0 x).mpr (Or.inr hx))) hmul
            -- full size wherever an operand has it
            have hfull : ∀ l ∈ ro, (∃ p ∈ ops, l ∈ p.1 ∧ dimOf p l = sizes l) → d l = sizes l := by
              intro l hl ⟨p, hp, hlp, hdim⟩
              apply hcovd l hl
              obtain ⟨x, hx, hxl⟩ := hr4 p hp
              rcases (hmem0 x).mp hx with rfl | hx'
              · exact Or.inl ((hxl l hlp).trans hdim)
              · exact Or.inr ⟨x, hx', (hxl l hlp).trans hdim⟩
            have hopsne : ops ≠ [] := by
              intro h0
              subst h0
              have := mapM_ok _ _ _ hm
              cases this
              simp at hrev
            have hshape : prod.shape = ro.map d := hd.shape
            have hle : ∀ e, EnvOK d ro e → EnvOK sizes ro e := by
              intro e he l hl
              have := he l hl
              rcases hd.dim l hl with h1 | h1
              · rw [h1] at this; exact this
              · rw [h1] at this
                have := hpos l
                omega
            have hval : ∀ e, EnvOK d ro e → prod.get (ro.map e) = tp ops e := by
              intro e he
              have hv := hd.val e (hle e he)
              rw [hshape, clip_map] at hv
              have hid : (ro.map fun l => if d l = 1 then 0 else e l) = ro.map e := by
                apply List.map_congr_left
                intro l hl
                by_cases h1 : d l = 1
                · have := he l hl
                  simp only [h1, if_true]; omega
                · simp [h1]
              rw [hid] at hv
              rw [hv]
              have : x0.2.2 e * (reps'.map fun x => x.2.2 e).prod = ((x0 :: reps').map fun x => x.2.2 e).prod := by
                simp
              rw [this, ← hrepsrev, List.map_reverse, List.prod_reverse, hr2 e]
              rfl
            have hT' := reduceSum_eq d ro (fun l => !final.contains l) prod (tp ops) hrond hshape hval
            have hOeq : (ro.filter fun l => !(!final.contains l)) = O := by
              rw [← hO]
              congr 1
              funext l
              simp
            rw [hOeq, hT] at hT'
            have hOnd : O.Nodup := by rw [← hO]; exact hrond.filter _
            have hOmem : ∀ a, a ∈ O ↔ a ∈ ro ∧ a ∈ final := by
              intro a
              rw [← hO, List.mem_filter, List.contains_iff_mem]
            have hTshape : T.shape = O.map d := by rw [hT']; rfl
            have hdimO : ∀ l ∈ O, dimOf (O, T) l = d l := fun l hl => dimOf_of_shape O T d hTshape l hl
            -- summed labels have their full size
            have hSd : ∀ l ∈ (ro.filter fun l => !final.contains l), d l = sizes l := by
              intro l hl
              obtain ⟨hl1, hl2⟩ := List.mem_filter.mp hl
              have hnf : l ∉ final := by simpa using hl2
              exact hfull l hl1 (hcov l ((hmemlab l).mp (hperm.mem_iff.mp hl1)) hnf)
            refine ⟨hOnd, ⟨?_, ?_⟩, ?_, ?_⟩
            · rw [hTshape]
              exact List.map_congr_left (fun l hl => (hdimO l hl).symm)
            · intro l hl
              rw [hdimO l hl]
              exact hd.dim l ((hOmem l).mp hl).1
            · intro l hl hex
              rw [hdimO l hl]
              exact hfull l ((hOmem l).mp hl).1 hex
            · intro env henv
              have hOin : InRange (O.map sizes) (O.map env) := inRange_map sizes env O henv
              have hin' : InRange (O.map d) (O.map fun l => if d l = 1 then 0 else env l) := by
                apply inRange_map d (fun l => if d l = 1 then 0 else env l) O
                intro l hl
                show (if d l = 1 then 0 else env l) < d l
                by_cases h1 : d l = 1
                · simp [h1]
                · rw [if_neg h1, (hd.dim l ((hOmem l).mp hl).1).resolve_right h1]
                  exact henv l hl
              rw [bget_map_dim T O d env hTshape, hT', get_ofFn _ _ _ hin']
              unfold einsumRef
              rw [get_ofFn _ _ _ hOin]
              have hperm2 : (ro.filter fun l => !final.contains l).Perm (summedLabels (ops.map (·.1)) O) := by
                unfold summedLabels
                rw [List.perm_ext_iff_of_nodup (hrond.filter _) ((nodup_labelSet _).filter _)]
                intro a
                rw [hlab]
                simp only [List.mem_filter, hperm.mem_iff, Bool.not_eq_true', List.contains_eq_mem,
                  decide_eq_false_iff_not, hOmem]
                constructor
                · rintro ⟨h1, h2⟩
                  exact ⟨h1, fun h => h2 h.2⟩
                · rintro ⟨h1, h2⟩
                  exact ⟨h1, fun h => h2 ⟨h1, h⟩⟩
              have hfun : termProd ops = tp ops := by
                funext e'
                exact termProd_eq_tp _ hopsne e'
              rw [hfun, ← sumLabels_perm sizes _ hperm2 (hrond.filter _),
                sumLabels_sizes_congr d sizes (tp ops) _ _ hSd]
              apply sumLabels_env_congr sizes (tp ops) (fun x => ∃ p ∈ ops, x ∈ p.1 ∧ dimOf p x ≠ 1)
              · intro e1 e2 hh
                exact tp_congr_b ops e1 e2 (fun p hp => (hb p hp).1) hh
              · intro x hx hxS
                obtain ⟨p, hp, hxp, hdx⟩ := hx
                have hxro : x ∈ ro := hperm.mem_iff.mpr ((hmemlab x).mpr ⟨p, hp, hxp⟩)
                have hxO : x ∈ O := by
                  rw [hOmem]
                  refine ⟨hxro, ?_⟩
                  by_contra hno
                  apply hxS
                  exact List.mem_filter.mpr ⟨hxro, by simpa using hno⟩
                rw [envOfList_map_self _ O _ hOnd x hxO, envOfList_map_self _ O _ hOnd x hxO]
                have hpx : dimOf p x = sizes x := ((hb p hp).2 x hxp).resolve_right hdx
                have hdxs : d x = sizes x := hfull x hxro ⟨p, hp, hxp, hpx⟩
                have : d x ≠ 1 := by rw [hdxs, ← hpx]; exact hdx
                simp [this]
  · simp [hk] at h

end

end TfPwaV.Einsum
