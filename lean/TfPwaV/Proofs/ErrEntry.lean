import TfPwaV.Gen.ErrEntryR
import TfPwaV.Proofs.ErrCtx
/-!
Helper lemmas for `Props/C09d.lean` about `TfPwaV.ErrEntryR` (the ℝ-instance of `templates/ErrEntry.lean.in`):
`set_all(dict)` as "last assignment wins", the loop of `num_hess_inv_3point` in closed form, list plumbing.
-/
open TfPwaV.ScalarR
namespace TfPwaV.ErrEntryR
open TfPwaV.ErrPropR TfPwaV.ErrCtxR

theorem foldl_set_length (p : List (Nat × ℝ)) : ∀ st : List ℝ,
    (List.foldl (fun s (a : Nat × ℝ) => s.set a.1 a.2) st p).length = st.length := by
  induction p with
  | nil => intro st; rfl
  | cons b p ih => intro st; rw [List.foldl_cons, ih]; simp

/-- the value stored in slot `i` after `set_all(params)`: the LAST assignment to `i`, else the old value -/
theorem getElem?_setParams (p : List (Nat × ℝ)) : ∀ (st : List ℝ) (i : Nat),
    (setParams p st)[i]? =
      match p.reverse.find? (fun a => a.1 = i) with
      | some a => if i < st.length then some a.2 else none
      | none => st[i]? := by
  induction p using List.reverseRecOn with
  | nil => intro st i; simp [setParams]
  | append_singleton p a ih =>
    intro st i
    have hlen := foldl_set_length p st
    simp only [setParams, List.foldl_append, List.foldl_cons, List.foldl_nil, List.reverse_append,
      List.reverse_singleton, List.singleton_append, List.find?_cons]
    by_cases hai : a.1 = i
    · subst hai
      simp only [decide_true]
      by_cases hl : a.1 < st.length
      · simp [hl, hlen]
      · simp [hl, hlen]
    · simp only [hai, decide_false]
      rw [List.getElem?_set_ne hai]
      exact ih st i

theorem tpStep_eq (fg : List ℝ → List ℝ) (eps : ℝ) (x : List ℝ) (rows : List (List ℝ)) (i : Nat)
    (hi : i < x.length) :
    tpStep fg eps (x, rows) i
      = (x, rows ++ [List.zipWith (fun a b => (a - b) / 2 / eps) (fg (x.set i (x.getD i 0 + eps)))
          (fg (x.set i (x.getD i 0 - eps)))]) := by
  have h1 : (x.set i (x.getD i 0 + eps)).getD i 0 = x.getD i 0 + eps := by
    simp [List.getD_eq_getElem?_getD, hi]
  have h2 : (x.set i (x.getD i 0 + eps - 2 * eps)).getD i 0 = x.getD i 0 + eps - 2 * eps := by
    simp [List.getD_eq_getElem?_getD, hi]
  have h3 : x.set i (x.getD i 0) = x := by
    simp [List.getD_eq_getElem?_getD, hi]
  simp only [tpStep, h1, List.set_set, h2]
  rw [show x.getD i 0 + eps - 2 * eps + eps = x.getD i 0 by ring, h3,
    show x.getD i 0 + eps - 2 * eps = x.getD i 0 - eps by ring]

/-- the whole loop of `num_hess_inv_3point`: `x0` is put back, row `i` is the central difference of the
transformed gradient along coordinate `i`. -/
theorem threePointHess_eq (fg : List ℝ → List ℝ) (eps : ℝ) (x0 : List ℝ) :
    threePointHess fg eps x0
      = (x0, (List.range x0.length).map fun i =>
          List.zipWith (fun a b => (a - b) / 2 / eps) (fg (x0.set i (x0.getD i 0 + eps)))
            (fg (x0.set i (x0.getD i 0 - eps)))) := by
  unfold threePointHess
  have key : ∀ m, m ≤ x0.length → (List.range m).foldl (tpStep fg eps) (x0, [])
      = (x0, (List.range m).map fun i =>
          List.zipWith (fun a b => (a - b) / 2 / eps) (fg (x0.set i (x0.getD i 0 + eps)))
            (fg (x0.set i (x0.getD i 0 - eps)))) := by
    intro m
    induction m with
    | zero => intro _; rfl
    | succ m ih =>
      intro hm
      rw [List.range_succ, List.foldl_append, ih (by omega), List.foldl_cons, List.foldl_nil,
        tpStep_eq fg eps x0 _ m (by omega), List.map_append, List.map_cons, List.map_nil]
  exact key _ le_rfl

theorem getD_map_range {α : Type} (f : Nat → α) (n i : Nat) (d : α) (hi : i < n) :
    ((List.range n).map f).getD i d = f i := by
  simp [List.getD_eq_getElem?_getD, hi]

theorem getD_zipWith_cd (eps : ℝ) : ∀ (A Bv : List ℝ) (j : Nat), A.length = Bv.length →
    (List.zipWith (fun a b => (a - b) / 2 / eps) A Bv).getD j 0 = (A.getD j 0 - Bv.getD j 0) / 2 / eps
  | [], [], j, _ => by simp
  | [], _ :: _, _, h => by simp at h
  | _ :: _, [], _, h => by simp at h
  | a :: A, b :: Bv, 0, _ => by simp
  | a :: A, b :: Bv, j + 1, h => by
    have := getD_zipWith_cd eps A Bv j (by simpa using h)
    simpa using this

theorem diagMat_ofFn {n : Nat} (d : Fin n → ℝ) :
    diagMat (List.ofFn d) = List.ofFn fun i : Fin n => List.ofFn fun j : Fin n => if i = j then d i else 0 := by
  apply List.ext_getElem
  · simp [diagMat]
  · intro i h1 h2
    have hi : i < n := by simpa using h2
    apply List.ext_getElem
    · simp [diagMat]
    · intro j h3 h4
      have hj : j < n := by simpa using h4
      simp [diagMat, List.getD_eq_getElem?_getD, hi, Fin.ext_iff]

end TfPwaV.ErrEntryR
