import TfPwaV.Proofs.AxesIndBD
import TfPwaV.Proofs.AxesIndBGauge
/-!
Helper lemmas for `Props/C01i.lean`, part 6: row / column factors of the executable `get_D_matrix_lambda` model `AmpR.mkD` from
relations between SU(2) ELEMENTS (spins `2j ≤ 8`), for EVERY requested row helicity and column (padding zeros included).

* `rowPhase N θ l` / `colPhase N θ δ`: the phase `e^{i m θ}` of the table row that `mkD` reads for the row request `l` / of the
  gathered column for the column request `δ` (1 outside the table).
* `mkD_row_factor`: `Rz(a')Ry(b')Rz(g') = Rotation_z(θ)·Rz(a)Ry(b)Rz(g)` ⇒ `mkD' = rowPhase θ · mkD`.
* `mkD_col_factor`: `Rz(a')Ry(b')Rz(g') = Rz(a)Ry(b)Rz(g)·Rotation_z(θ)` ⇒ `mkD' = mkD · colPhase θ`.
* `mkD_row_mix`: `Rz(a')Ry(b')Rz(g') = X·Rz(a)Ry(b)Rz(g)` ⇒ the rows of `mkD'` are the `DE X`-mixture of the rows of `mkD`.
-/
open Matrix BigOperators
open TfPwaV.ScalarR
namespace TfPwaV.AxesInd
open TfPwaV.SU2R TfPwaV.AlignR TfPwaV.C12 TfPwaV.C02 TfPwaV.C01 TfPwaV.FrameAlg TfPwaV.AmpR TfPwaV.LineShapeR

/-- the phase of the table row `mkD` reads for the row request `l` -/
noncomputable def rowPhase (N : ℕ) (θ : ℝ) (l : Int) : ℂ :=
  if hr : ((l + (N : Int)) / 2).toNat < N + 1 then FrameAlg.phase N θ ⟨((l + (N : Int)) / 2).toNat, hr⟩ else 1

/-- the phase of the column `Dfun_delta_v2` gathers for the column request `δ = λ_b − λ_c` -/
noncomputable def colPhase (N : ℕ) (θ : ℝ) (δ : Int) : ℂ :=
  if h : δ.natAbs ≤ N then FrameAlg.phase N θ ⟨((δ + (N : Int)) / 2).toNat, by omega⟩ else 1

theorem rowPhase_hel2 (N : ℕ) (θ : ℝ) (i : Fin (N + 1)) : rowPhase N θ (hel2 N i) = FrameAlg.phase N θ i := by
  have e : ((hel2 N i + (N : Int)) / 2).toNat = (i : ℕ) := by unfold hel2; have := i.2; omega
  unfold rowPhase
  rw [dif_pos (by rw [e]; exact i.2)]
  congr 1
  exact Fin.ext e

theorem DConj_left_rotZ (N : ℕ) (hN : N ≤ 8) (a b g a' b' g' θ : ℝ)
    (h : rot3 a' b' g' = (rotZ θ).mul (rot3 a b g)) :
    DConj N a' b' g' = diagonal (FrameAlg.phase N θ) * DConj N a b g := by
  rw [← DE_rotZ N hN, ← DE_rot3 N hN a b g, ← DE_mul N hN _ _ (isSU2_rotZ θ) (isSU2_rot3 a b g), ← h, DE_rot3 N hN]

theorem DConj_right_rotZ (N : ℕ) (hN : N ≤ 8) (a b g a' b' g' θ : ℝ)
    (h : rot3 a' b' g' = (rot3 a b g).mul (rotZ θ)) :
    DConj N a' b' g' = DConj N a b g * diagonal (FrameAlg.phase N θ) := by
  rw [← DE_rotZ N hN, ← DE_rot3 N hN a b g, ← DE_mul N hN _ _ (isSU2_rot3 a b g) (isSU2_rotZ θ), ← h, DE_rot3 N hN]

theorem DConj_left_mul (N : ℕ) (hN : N ≤ 8) (X : M2) (hX : IsSU2 X) (a b g a' b' g' : ℝ)
    (h : rot3 a' b' g' = X.mul (rot3 a b g)) : DConj N a' b' g' = DE N X * DConj N a b g := by
  rw [← DE_rot3 N hN a b g, ← DE_mul N hN _ _ hX (isSU2_rot3 a b g), ← h, DE_rot3 N hN]

theorem DConj_right_mul (N : ℕ) (hN : N ≤ 8) (X : M2) (hX : IsSU2 X) (a b g a' b' g' : ℝ)
    (h : rot3 a' b' g' = (rot3 a b g).mul X) : DConj N a' b' g' = DConj N a b g * DE N X := by
  rw [← DE_rot3 N hN a b g, ← DE_mul N hN _ _ (isSU2_rot3 a b g) hX, ← h, DE_rot3 N hN]

/-- **row factor**, every row request `l` and every column request `δ` -/
theorem mkD_row_factor (N : ℕ) (hN : N ≤ 8) (a b g a' b' g' θ : ℝ)
    (h : rot3 a' b' g' = (rotZ θ).mul (rot3 a b g)) (l δ : Int) :
    toC (mkD N a' b' g' l δ) = rowPhase N θ l * toC (mkD N a b g l δ) := by
  have hD := DConj_left_rotZ N hN a b g a' b' g' θ h
  unfold rowPhase
  by_cases hr : ((l + (N : Int)) / 2).toNat < N + 1
  · rw [dif_pos hr, mkD_row_eq N l δ a' b' g' hr, mkD_row_eq N l δ a b g hr, toC_mkD, toC_mkD]
    split_ifs with hd
    · rw [hD, Matrix.diagonal_mul]
    · simp
  · rw [dif_neg hr, mkD_row_zero N l δ a' b' g' hr, mkD_row_zero N l δ a b g hr, one_mul]

/-- **column factor**, every row helicity of the table and every column request `δ` -/
theorem mkD_col_factor (N : ℕ) (hN : N ≤ 8) (a b g a' b' g' θ : ℝ)
    (h : rot3 a' b' g' = (rot3 a b g).mul (rotZ θ)) (i : Fin (N + 1)) (δ : Int) :
    toC (mkD N a' b' g' (hel2 N i) δ) = toC (mkD N a b g (hel2 N i) δ) * colPhase N θ δ := by
  have hD := DConj_right_rotZ N hN a b g a' b' g' θ h
  unfold colPhase
  rw [toC_mkD, toC_mkD]
  split_ifs with hd
  · rw [hD, Matrix.mul_diagonal]
  · simp

/-- **row mixing**, every column request `δ` -/
theorem mkD_row_mix (N : ℕ) (hN : N ≤ 8) (X : M2) (hX : IsSU2 X) (a b g a' b' g' : ℝ)
    (h : rot3 a' b' g' = X.mul (rot3 a b g)) (i : Fin (N + 1)) (δ : Int) :
    toC (mkD N a' b' g' (hel2 N i) δ) = ∑ k, DE N X i k * toC (mkD N a b g (hel2 N k) δ) := by
  have hD := DConj_left_mul N hN X hX a b g a' b' g' h
  simp only [toC_mkD]
  split_ifs with hd
  · rw [hD, Matrix.mul_apply]
  · simp

/-- **column mixing**, every row request `l` -/
theorem mkD_col_mix' (N : ℕ) (hN : N ≤ 8) (X : M2) (hX : IsSU2 X) (a b g a' b' g' : ℝ)
    (h : rot3 a' b' g' = (rot3 a b g).mul X) (l : Int) (k : Fin (N + 1)) :
    toC (mkD N a' b' g' l (hel2 N k)) = ∑ j, toC (mkD N a b g l (hel2 N j)) * DE N X j k := by
  have hD := DConj_right_mul N hN X hX a b g a' b' g' h
  have hX' : DE N X = DConj N (eulerOf X).gamma (eulerOf X).beta (eulerOf X).alpha := rfl
  rw [hX'] at hD ⊢
  exact mkD_col_mix N a' b' g' a b g _ _ _ hD l k

/-- Euler angles `(a, b, c)` of an element: `Rz(a)Ry(b)Rz(c) = x` -/
noncomputable def anglesOf (x : M2) : ℝ × ℝ × ℝ := ((eulerOf x).gamma, (eulerOf x).beta, (eulerOf x).alpha)

theorem rot3_anglesOf (x : M2) (hx : IsSU2 x) : rot3 (anglesOf x).1 (anglesOf x).2.1 (anglesOf x).2.2 = x :=
  rot3_eulerOf' x hx

/-- the column factor for EVERY row request -/
theorem mkD_col_factor' (N : ℕ) (hN : N ≤ 8) (a b g a' b' g' θ : ℝ)
    (h : rot3 a' b' g' = (rot3 a b g).mul (rotZ θ)) (l δ : Int) :
    toC (mkD N a' b' g' l δ) = toC (mkD N a b g l δ) * colPhase N θ δ := by
  by_cases hr : ((l + (N : Int)) / 2).toNat < N + 1
  · rw [mkD_row_eq N l δ a' b' g' hr, mkD_row_eq N l δ a b g hr]
    exact mkD_col_factor N hN a b g a' b' g' θ h _ δ
  · rw [mkD_row_zero N l δ a' b' g' hr, mkD_row_zero N l δ a b g hr, toC_zero, zero_mul]

/-- **row and column factor** (an alignment D-function whose Euler element is multiplied by `Rotation_z` on both sides) -/
theorem mkD_row_col_factor (N : ℕ) (hN : N ≤ 8) (a b g a' b' g' θ φ : ℝ)
    (h : rot3 a' b' g' = (rotZ θ).mul ((rot3 a b g).mul (rotZ φ))) (l δ : Int) :
    toC (mkD N a' b' g' l δ) = rowPhase N θ l * toC (mkD N a b g l δ) * colPhase N φ δ := by
  have hx : IsSU2 ((rot3 a b g).mul (rotZ φ)) := isSU2_mul _ _ (isSU2_rot3 a b g) (isSU2_rotZ φ)
  have e := rot3_anglesOf _ hx
  rw [mkD_row_factor N hN _ _ _ a' b' g' θ (by rw [e]; exact h) l δ, mkD_col_factor' N hN a b g _ _ _ φ e l δ, mul_assoc]

end TfPwaV.AxesInd
