import TfPwaV.Proofs.TopologyDistinct
/-! C14, all n, chain level (part 1): insertion-ordered dictionaries, named binary trees `NT`, the relation
"chain `c` consists of exactly the decays of the tree `N`" (`Rep`), and the theorem that `sorted_table` of ANY such
chain (any order of the decays, any order of the daughters) terminates and returns, for every vertex of the tree,
the sorted list of the final particles below it (`sortedTable_rep`). -/
set_option linter.unusedSectionVars false
namespace TfPwaV.Topology

/-! ## small list facts (core only) -/

theorem inj_of_nodup_map {β γ : Type} (f : β → γ) (l : List β) (h : (l.map f).Nodup) :
    ∀ x ∈ l, ∀ y ∈ l, f x = f y → x = y := by
  induction l with
  | nil => intro x hx; simp at hx
  | cons a l ih =>
    simp only [List.map_cons, List.nodup_cons, List.mem_map, not_exists, not_and] at h
    intro x hx y hy hxy
    rcases List.mem_cons.1 hx with hxa | hx'
    · rcases List.mem_cons.1 hy with hya | hy'
      · rw [hxa, hya]
      · subst hxa; exact absurd hxy.symm (h.1 y hy')
    · rcases List.mem_cons.1 hy with hya | hy'
      · subst hya; exact absurd hxy (h.1 x hx')
      · exact ih h.2 x hx' y hy' hxy

theorem nodup_of_nodup_map {β γ : Type} (f : β → γ) (l : List β) (h : (l.map f).Nodup) : l.Nodup := by
  induction l with
  | nil => exact List.nodup_nil
  | cons a l ih =>
    simp only [List.map_cons, List.nodup_cons, List.mem_map, not_exists, not_and] at h
    exact List.nodup_cons.2 ⟨fun ha => h.1 a ha rfl, ih h.2⟩

theorem filter_singleton_of_nodup {β : Type} (l : List β) (P : β → Bool) (a : β) (hn : l.Nodup) (ha : a ∈ l)
    (hp : P a = true) (hu : ∀ b ∈ l, P b = true → b = a) : l.filter P = [a] := by
  induction l with
  | nil => simp at ha
  | cons b l ih =>
    rw [List.nodup_cons] at hn
    rcases List.mem_cons.1 ha with rfl | hal
    · have : l.filter P = [] := by
        rw [List.filter_eq_nil_iff]
        intro x hx hpx
        have := hu x (List.mem_cons_of_mem _ hx) hpx
        subst this
        exact hn.1 hx
      simp [hp, this]
    · have hb : P b = false := by
        cases hpb : P b with
        | false => rfl
        | true =>
          have := hu b List.mem_cons_self hpb
          subst this
          exact absurd hal hn.1
      simp only [List.filter_cons, hb]
      exact ih hn.2 hal (fun x hx => hu x (List.mem_cons_of_mem _ hx))

theorem nodup_flatMap' {β γ : Type} (l : List β) (f : β → List γ) (h1 : ∀ x ∈ l, (f x).Nodup)
    (h2 : l.Pairwise fun x y => ∀ z ∈ f x, z ∉ f y) : (l.flatMap f).Nodup := by
  induction l with
  | nil => simp
  | cons a l ih =>
    rw [List.pairwise_cons] at h2
    simp only [List.flatMap_cons, List.nodup_append]
    refine ⟨h1 a List.mem_cons_self, ih (fun x hx => h1 x (List.mem_cons_of_mem _ hx)) h2.2, ?_⟩
    intro z hz w hw hzw
    subst hzw
    obtain ⟨y, hy, hzy⟩ := List.mem_flatMap.1 hw
    exact h2.1 y hy z hz hzy

/-! ## dictionaries -/
section dict
variable {κ ν : Type} [DecidableEq κ]

def Dict.keys (d : Dict κ ν) : List κ := d.map (·.1)

theorem Dict.get?_set (d : Dict κ ν) (k k' : κ) (v : ν) :
    (d.set k v).get? k' = if k = k' then some v else d.get? k' := by
  induction d with
  | nil => simp [Dict.set, Dict.get?]
  | cons a d ih =>
    obtain ⟨a1, a2⟩ := a
    simp only [Dict.set]
    by_cases h : a1 = k
    · subst h
      simp only [if_true, Dict.get?]
      by_cases h2 : a1 = k' <;> simp [h2]
    · simp only [if_neg h, Dict.get?, ih]
      by_cases h2 : a1 = k'
      · have : ¬ k = k' := fun e => h (h2.trans e.symm)
        simp [h2, this]
      · simp [h2]

theorem Dict.get?_set_self (d : Dict κ ν) (k : κ) (v : ν) : (d.set k v).get? k = some v := by
  rw [Dict.get?_set]; simp

theorem Dict.get?_set_ne (d : Dict κ ν) (k k' : κ) (v : ν) (h : k ≠ k') : (d.set k v).get? k' = d.get? k' := by
  rw [Dict.get?_set]; simp [h]

theorem Dict.get?_none_iff (d : Dict κ ν) (k : κ) : d.get? k = none ↔ k ∉ d.keys := by
  induction d with
  | nil => simp [Dict.get?, Dict.keys]
  | cons a d ih =>
    obtain ⟨a1, a2⟩ := a
    simp only [Dict.get?, Dict.keys, List.map_cons, List.mem_cons, not_or] at ih ⊢
    by_cases h : a1 = k
    · simp [h]
    · simp only [if_neg h, ih]
      constructor
      · intro h2; exact ⟨fun e => h e.symm, h2⟩
      · intro h2; exact h2.2

theorem Dict.has_iff (d : Dict κ ν) (k : κ) : d.has k = true ↔ k ∈ d.keys := by
  unfold Dict.has
  rw [Option.isSome_iff_ne_none, Ne, Dict.get?_none_iff, Classical.not_not]

theorem Dict.has_iff_get (d : Dict κ ν) (k : κ) : d.has k = true ↔ ∃ v, d.get? k = some v := by
  unfold Dict.has
  exact Option.isSome_iff_exists

theorem Dict.keys_set (d : Dict κ ν) (k : κ) (v : ν) :
    (d.set k v).keys = if k ∈ d.keys then d.keys else d.keys ++ [k] := by
  induction d with
  | nil => simp [Dict.set, Dict.keys]
  | cons a d ih =>
    obtain ⟨a1, a2⟩ := a
    simp only [Dict.keys, List.map_cons, List.mem_cons] at ih ⊢
    simp only [Dict.set]
    by_cases h : a1 = k
    · subst h; simp
    · have h' : ¬ k = a1 := fun e => h e.symm
      simp only [if_neg h, List.map_cons, ih, h', false_or]
      split <;> simp [*]

theorem Dict.keys_set_nodup (d : Dict κ ν) (k : κ) (v : ν) (h : d.keys.Nodup) : (d.set k v).keys.Nodup := by
  rw [Dict.keys_set]
  split
  · exact h
  · rename_i hk
    rw [List.nodup_append]
    refine ⟨h, List.pairwise_singleton _ _, ?_⟩
    intro a ha b hb hab
    simp only [List.mem_singleton] at hb
    subst hb; subst hab
    exact hk ha

theorem Dict.mem_keys_set (d : Dict κ ν) (k k' : κ) (v : ν) : k' ∈ (d.set k v).keys ↔ k' = k ∨ k' ∈ d.keys := by
  rw [Dict.keys_set]
  split
  · rename_i h; constructor
    · exact Or.inr
    · rintro (rfl | h') <;> assumption
  · simp only [List.mem_append, List.mem_singleton]; exact Or.comm

theorem Dict.set_set (d : Dict κ ν) (k : κ) (v v' : ν) : (d.set k v).set k v' = d.set k v' := by
  induction d with
  | nil => simp [Dict.set]
  | cons a d ih =>
    obtain ⟨a1, a2⟩ := a
    simp only [Dict.set]
    by_cases h : a1 = k
    · simp [h, Dict.set]
    · simp [h, Dict.set, ih]

theorem Dict.set_eq_self (d : Dict κ ν) (k : κ) (v : ν) (h : d.get? k = some v) : d.set k v = d := by
  induction d with
  | nil => simp [Dict.get?] at h
  | cons a d ih =>
    obtain ⟨a1, a2⟩ := a
    simp only [Dict.get?] at h
    simp only [Dict.set]
    by_cases h1 : a1 = k
    · simp only [if_pos h1, Option.some.injEq] at h
      simp [h1, h]
    · simp only [if_neg h1] at h
      simp [h1, ih h]

theorem Dict.get?_del (d : Dict κ ν) (k k' : κ) : (d.del k).get? k' = if k = k' then none else d.get? k' := by
  induction d with
  | nil => simp [Dict.del, Dict.get?]
  | cons a d ih =>
    obtain ⟨a1, a2⟩ := a
    simp only [Dict.del] at ih ⊢
    by_cases h : a1 = k
    · subst h
      simp only [List.filter_cons, decide_true, Bool.not_true, Bool.false_eq_true, if_false, ih, Dict.get?]
      split <;> rfl
    · simp only [List.filter_cons, h, decide_false, Bool.not_false, if_true, Dict.get?, ih]
      by_cases h2 : a1 = k'
      · have : ¬ k = k' := fun e => h (h2.trans e.symm)
        simp [h2, this]
      · simp [h2]

theorem Dict.keys_del_nodup (d : Dict κ ν) (k : κ) (h : d.keys.Nodup) : (d.del k).keys.Nodup := by
  unfold Dict.keys Dict.del
  exact List.Nodup.sublist (List.Sublist.map _ List.filter_sublist) h

theorem Dict.mem_iff_get (d : Dict κ ν) (h : d.keys.Nodup) (k : κ) (v : ν) : (k, v) ∈ d ↔ d.get? k = some v := by
  induction d with
  | nil => simp [Dict.get?]
  | cons a d ih =>
    obtain ⟨a1, a2⟩ := a
    simp only [Dict.keys, List.map_cons, List.nodup_cons] at h
    simp only [List.mem_cons, Dict.get?, Prod.mk.injEq]
    by_cases h1 : a1 = k
    · subst h1
      simp only [if_true, Option.some.injEq, true_and]
      constructor
      · rintro (h2 | h2)
        · exact h2.symm
        · exact absurd (List.mem_map.2 ⟨(a1, v), h2, rfl⟩) h.1
      · intro h2; exact Or.inl h2.symm
    · simp only [if_neg h1]
      rw [← ih h.2]
      constructor
      · rintro (h2 | h2)
        · exact absurd h2.1.symm h1
        · exact h2
      · exact Or.inr

omit [DecidableEq κ] in
theorem Dict.nodup_of_keys (d : Dict κ ν) (h : d.keys.Nodup) : d.Nodup := nodup_of_nodup_map _ _ h

end dict

/-! ## named binary trees -/

/-- full binary tree whose every vertex carries a particle (the `DecayChain` view of a `_Chain_Graph`) -/
inductive NT (α : Type) where
  | leaf (a : α)
  | node (a : α) (l r : NT α)

section nt
variable {α : Type}

def NT.name : NT α → α
  | .leaf a => a
  | .node a _ _ => a

def NT.leaves : NT α → List α
  | .leaf a => [a]
  | .node _ l r => l.leaves ++ r.leaves

/-- all subtrees, pre-order (the tree itself first) -/
def NT.subs : NT α → List (NT α)
  | .leaf a => [.leaf a]
  | .node a l r => .node a l r :: (l.subs ++ r.subs)

/-- names of all vertices, pre-order -/
def NT.verts (t : NT α) : List α := t.subs.map NT.name

def NT.size : NT α → Nat
  | .leaf _ => 1
  | .node _ l r => l.size + r.size + 1

theorem NT.self_mem_subs (t : NT α) : t ∈ t.subs := by cases t <;> simp [NT.subs]

theorem NT.subs_trans {s t : NT α} (h : s ∈ t.subs) : ∀ u ∈ s.subs, u ∈ t.subs := by
  induction t with
  | leaf a => simp only [NT.subs, List.mem_singleton] at h; subst h; exact fun u hu => hu
  | node a l r ihl ihr =>
    simp only [NT.subs, List.mem_cons, List.mem_append] at h ⊢
    rcases h with rfl | h | h
    · intro u hu; simpa [NT.subs] using hu
    · intro u hu; exact Or.inr (Or.inl (ihl h u hu))
    · intro u hu; exact Or.inr (Or.inr (ihr h u hu))

theorem NT.children_mem {a : α} {l r t : NT α} (h : NT.node a l r ∈ t.subs) : l ∈ t.subs ∧ r ∈ t.subs :=
  ⟨NT.subs_trans h l (by simp [NT.subs, NT.self_mem_subs]), NT.subs_trans h r (by simp [NT.subs, NT.self_mem_subs])⟩

theorem NT.size_le {s t : NT α} (h : s ∈ t.subs) : s.size ≤ t.size := by
  induction t with
  | leaf a => simp only [NT.subs, List.mem_singleton] at h; subst h; exact Nat.le_refl _
  | node a l r ihl ihr =>
    simp only [NT.subs, List.mem_cons, List.mem_append] at h
    rcases h with rfl | h | h
    · exact Nat.le_refl _
    · have := ihl h; simp only [NT.size]; omega
    · have := ihr h; simp only [NT.size]; omega

theorem NT.leaf_mem_subs (t : NT α) (a : α) : NT.leaf a ∈ t.subs ↔ a ∈ t.leaves := by
  induction t with
  | leaf b => simp [NT.subs, NT.leaves]
  | node b l r ihl ihr => simp [NT.subs, NT.leaves, ihl, ihr]

theorem NT.leaves_sub_verts (t : NT α) : ∀ a ∈ t.leaves, a ∈ t.verts := by
  intro a ha
  exact List.mem_map.2 ⟨.leaf a, (t.leaf_mem_subs a).2 ha, rfl⟩

theorem NT.verts_node (a : α) (l r : NT α) : (NT.node a l r).verts = a :: (l.verts ++ r.verts) := by
  simp [NT.verts, NT.subs, NT.name]

theorem NT.leaves_nodup (t : NT α) (h : t.verts.Nodup) : t.leaves.Nodup := by
  induction t with
  | leaf a => simp [NT.leaves]
  | node a l r ihl ihr =>
    rw [NT.verts_node, List.nodup_cons, List.nodup_append] at h
    obtain ⟨_, hl, hr, hd⟩ := h
    simp only [NT.leaves, List.nodup_append]
    refine ⟨ihl hl, ihr hr, ?_⟩
    intro x hx y hy hxy
    exact hd x (l.leaves_sub_verts x hx) y (r.leaves_sub_verts y hy) hxy

/-- with pairwise different vertex names a subtree is determined by the name of its root -/
theorem NT.eq_of_name {t : NT α} (h : t.verts.Nodup) {s s' : NT α} (hs : s ∈ t.subs) (hs' : s' ∈ t.subs)
    (hn : s.name = s'.name) : s = s' := inj_of_nodup_map NT.name t.subs h s hs s' hs' hn

theorem NT.mem_verts_of_sub {s t : NT α} (h : s ∈ t.subs) : s.name ∈ t.verts := List.mem_map.2 ⟨s, h, rfl⟩

/-- every subtree except the whole tree is a daughter of some inner vertex -/
theorem NT.parent {s t : NT α} (h : s ∈ t.subs) :
    s = t ∨ ∃ a l r, NT.node a l r ∈ t.subs ∧ (s = l ∨ s = r) := by
  induction t with
  | leaf a => simp only [NT.subs, List.mem_singleton] at h; exact Or.inl h
  | node a l r ihl ihr =>
    simp only [NT.subs, List.mem_cons, List.mem_append] at h
    rcases h with h | h | h
    · exact Or.inl h
    · right
      rcases ihl h with h1 | ⟨a', l', r', h1, h2⟩
      · exact ⟨a, l, r, NT.self_mem_subs _, Or.inl h1⟩
      · exact ⟨a', l', r', by simp [NT.subs, h1], h2⟩
    · right
      rcases ihr h with h1 | ⟨a', l', r', h1, h2⟩
      · exact ⟨a, l, r, NT.self_mem_subs _, Or.inr h1⟩
      · exact ⟨a', l', r', by simp [NT.subs, h1], h2⟩

/-- a vertex has one mother only -/
theorem NT.parent_unique {t : NT α} (h : t.verts.Nodup) {a₁ a₂ : α} {l₁ r₁ l₂ r₂ s : NT α}
    (h₁ : NT.node a₁ l₁ r₁ ∈ t.subs) (h₂ : NT.node a₂ l₂ r₂ ∈ t.subs)
    (c₁ : s = l₁ ∨ s = r₁) (c₂ : s = l₂ ∨ s = r₂) : NT.node a₁ l₁ r₁ = NT.node a₂ l₂ r₂ := by
  induction t with
  | leaf a => simp [NT.subs] at h₁
  | node a l r ihl ihr =>
    have hv := h
    rw [NT.verts_node, List.nodup_cons, List.nodup_append] at hv
    obtain ⟨_, hl, hr, hd⟩ := hv
    have hs₁ : s ∈ (NT.node a₁ l₁ r₁).subs := by
      rcases c₁ with rfl | rfl <;> simp [NT.subs, NT.self_mem_subs]
    have hs₂ : s ∈ (NT.node a₂ l₂ r₂).subs := by
      rcases c₂ with rfl | rfl <;> simp [NT.subs, NT.self_mem_subs]
    have hsz₁ : s.size < (NT.node a₁ l₁ r₁).size := by
      rcases c₁ with rfl | rfl <;> simp only [NT.size] <;> omega
    have hsz₂ : s.size < (NT.node a₂ l₂ r₂).size := by
      rcases c₂ with rfl | rfl <;> simp only [NT.size] <;> omega
    -- a subtree lying in both l and r is impossible
    have cross : ∀ u, u ∈ l.subs → u ∈ r.subs → False := fun u hu1 hu2 =>
      hd _ (NT.mem_verts_of_sub hu1) _ (NT.mem_verts_of_sub hu2) rfl
    simp only [NT.subs, List.mem_cons, List.mem_append] at h₁ h₂
    rcases h₁ with e₁ | m₁ | m₁ <;> rcases h₂ with e₂ | m₂ | m₂
    · rw [e₁, e₂]
    · -- P₁ is the whole tree, P₂ inside l
      exfalso
      have hsl : s ∈ l.subs := NT.subs_trans m₂ s hs₂
      injection e₁ with _ el er
      rcases c₁ with rfl | rfl
      · rw [el] at hsz₂; exact absurd (NT.size_le m₂) (by omega)
      · rw [er] at hsl; exact cross _ hsl (NT.self_mem_subs _)
    · exfalso
      have hsr : s ∈ r.subs := NT.subs_trans m₂ s hs₂
      injection e₁ with _ el er
      rcases c₁ with rfl | rfl
      · rw [el] at hsr; exact cross _ (NT.self_mem_subs _) hsr
      · rw [er] at hsz₂; exact absurd (NT.size_le m₂) (by omega)
    · exfalso
      have hsl : s ∈ l.subs := NT.subs_trans m₁ s hs₁
      injection e₂ with _ el er
      rcases c₂ with rfl | rfl
      · rw [el] at hsz₁; exact absurd (NT.size_le m₁) (by omega)
      · rw [er] at hsl; exact cross _ hsl (NT.self_mem_subs _)
    · exact ihl hl m₁ m₂
    · exact (cross s (NT.subs_trans m₁ s hs₁) (NT.subs_trans m₂ s hs₂)).elim
    · exfalso
      have hsr : s ∈ r.subs := NT.subs_trans m₁ s hs₁
      injection e₂ with _ el er
      rcases c₂ with rfl | rfl
      · rw [el] at hsr; exact cross _ (NT.self_mem_subs _) hsr
      · rw [er] at hsz₁; exact absurd (NT.size_le m₁) (by omega)
    · exact (cross s (NT.subs_trans m₂ s hs₂) (NT.subs_trans m₁ s hs₁)).elim
    · exact ihr hr m₁ m₂

theorem NT.subs_length (t : NT α) : t.subs.length + 1 = 2 * t.leaves.length := by
  induction t with
  | leaf a => simp [NT.subs, NT.leaves]
  | node a l r ihl ihr => simp only [NT.subs, NT.leaves, List.length_cons, List.length_append]; omega

end nt

/-! ## a chain that consists of exactly the decays of a named tree -/
section rep
variable {α : Type} [DecidableEq α]

omit [DecidableEq α] in
theorem NT.sub_verts_nodup {s t : NT α} (h : s ∈ t.subs) (hv : t.verts.Nodup) : s.verts.Nodup := by
  induction t with
  | leaf a => simp only [NT.subs, List.mem_singleton] at h; subst h; exact hv
  | node a l r ihl ihr =>
    have hv' := hv
    rw [NT.verts_node, List.nodup_cons, List.nodup_append] at hv'
    simp only [NT.subs, List.mem_cons, List.mem_append] at h
    rcases h with rfl | h | h
    · exact hv
    · exact ihl h hv'.2.1
    · exact ihr h hv'.2.2.1

/-- in a subtree `a → l r` of a tree with pairwise different vertices the three names differ -/
theorem NT.node_names_ne {a : α} {l r t : NT α} (h : NT.node a l r ∈ t.subs) (hv : t.verts.Nodup) :
    a ≠ l.name ∧ a ≠ r.name ∧ l.name ≠ r.name := by
  have h1 := NT.sub_verts_nodup h hv
  rw [NT.verts_node, List.nodup_cons, List.nodup_append, List.mem_append, not_or] at h1
  obtain ⟨⟨hal, har⟩, _, _, hd⟩ := h1
  have ml : l.name ∈ l.verts := NT.mem_verts_of_sub (NT.self_mem_subs l)
  have mr : r.name ∈ r.verts := NT.mem_verts_of_sub (NT.self_mem_subs r)
  exact ⟨fun e => hal (e ▸ ml), fun e => har (e ▸ mr), fun e => hd _ ml _ mr e⟩

/-- `c` has one decay `a → l r` (daughters in either order) for every inner vertex of `N`, and nothing else -/
structure Rep (c : Chain α) (N : NT α) : Prop where
  cores : (coreList c).Nodup
  sound : ∀ d ∈ c, ∃ l r, NT.node d.core l r ∈ N.subs ∧ d.outs.Perm [l.name, r.name]
  complete : ∀ a l r, NT.node a l r ∈ N.subs → a ∈ coreList c

theorem Rep.decay {c : Chain α} {N : NT α} (hc : Rep c N) (hv : N.verts.Nodup) {a : α} {l r : NT α}
    (h : NT.node a l r ∈ N.subs) : ∃ d ∈ c, d.core = a ∧ d.outs.Perm [l.name, r.name] := by
  obtain ⟨d, hd, hda⟩ := List.mem_map.1 (hc.complete a l r h)
  obtain ⟨l', r', h', hp⟩ := hc.sound d hd
  have := NT.eq_of_name hv h h' (by simp [NT.name, hda])
  injection this with _ e2 e3
  subst e2; subst e3
  exact ⟨d, hd, hda, hp⟩

theorem Rep.mem_outList {c : Chain α} {N : NT α} (hc : Rep c N) (hv : N.verts.Nodup) (x : α) :
    x ∈ outList c ↔ ∃ a l r, NT.node a l r ∈ N.subs ∧ (x = l.name ∨ x = r.name) := by
  simp only [outList, List.mem_flatMap]
  constructor
  · rintro ⟨d, hd, hx⟩
    obtain ⟨l, r, h, hp⟩ := hc.sound d hd
    have := hp.mem_iff.1 hx
    simp only [List.mem_cons, List.mem_nil_iff, or_false] at this
    exact ⟨d.core, l, r, h, this⟩
  · rintro ⟨a, l, r, h, hx⟩
    obtain ⟨d, hd, _, hp⟩ := hc.decay hv h
    refine ⟨d, hd, hp.mem_iff.2 ?_⟩
    simp only [List.mem_cons, List.mem_nil_iff, or_false]
    exact hx

theorem Rep.outList_nodup {c : Chain α} {N : NT α} (hc : Rep c N) (hv : N.verts.Nodup) : (outList c).Nodup := by
  unfold outList
  apply nodup_flatMap'
  · intro d hd
    obtain ⟨l, r, h, hp⟩ := hc.sound d hd
    rw [hp.nodup_iff]
    have := (NT.node_names_ne h hv).2.2
    simp [this]
  · have h1 : c.Pairwise (fun x y => x.core ≠ y.core) := List.pairwise_map.1 hc.cores
    refine List.Pairwise.imp_of_mem ?_ h1
    intro x y hx hy hne z hzx hzy
    obtain ⟨l₁, r₁, h₁, p₁⟩ := hc.sound x hx
    obtain ⟨l₂, r₂, h₂, p₂⟩ := hc.sound y hy
    have m₁ := p₁.mem_iff.1 hzx
    have m₂ := p₂.mem_iff.1 hzy
    simp only [List.mem_cons, List.mem_nil_iff, or_false] at m₁ m₂
    have c₁ := NT.children_mem h₁
    have c₂ := NT.children_mem h₂
    -- the daughter named z
    obtain ⟨s₁, hs₁, hn₁, hc₁⟩ : ∃ s, s ∈ N.subs ∧ s.name = z ∧ (s = l₁ ∨ s = r₁) := by
      rcases m₁ with e | e
      · exact ⟨l₁, c₁.1, e.symm, Or.inl rfl⟩
      · exact ⟨r₁, c₁.2, e.symm, Or.inr rfl⟩
    obtain ⟨s₂, hs₂, hn₂, hc₂⟩ : ∃ s, s ∈ N.subs ∧ s.name = z ∧ (s = l₂ ∨ s = r₂) := by
      rcases m₂ with e | e
      · exact ⟨l₂, c₂.1, e.symm, Or.inl rfl⟩
      · exact ⟨r₂, c₂.2, e.symm, Or.inr rfl⟩
    have : s₁ = s₂ := NT.eq_of_name hv hs₁ hs₂ (hn₁.trans hn₂.symm)
    subst this
    have := NT.parent_unique hv h₁ h₂ hc₁ hc₂
    injection this with e _ _
    exact hne e

/-- `DecayChain.__init__`: the only core that is nobody's daughter is the root of the tree -/
theorem Rep.topOf {c : Chain α} {a : α} {l r : NT α} (hc : Rep c (NT.node a l r))
    (hv : (NT.node a l r).verts.Nodup) : topOf c = some a := by
  have hN := NT.self_mem_subs (NT.node a l r)
  have key : (splitTypes c).1 = [a] := by
    simp only [splitTypes]
    apply filter_singleton_of_nodup _ _ a hc.cores (hc.complete a l r hN)
    · -- a is not a daughter
      simp only [Bool.not_eq_true', List.contains_eq_mem, decide_eq_false_iff_not, List.mem_filter,
        decide_eq_true_eq, not_and]
      intro _ hos
      obtain ⟨a', l', r', h', hx⟩ := (hc.mem_outList hv a).1 hos
      have ch := NT.children_mem h'
      have hsz := NT.size_le h'
      rcases hx with e | e
      · have := NT.eq_of_name hv hN ch.1 (by simpa [NT.name] using e)
        rw [← this] at hsz; simp only [NT.size] at hsz; omega
      · have := NT.eq_of_name hv hN ch.2 (by simpa [NT.name] using e)
        rw [← this] at hsz; simp only [NT.size] at hsz; omega
    · intro b hb hnb
      simp only [Bool.not_eq_true', List.contains_eq_mem, decide_eq_false_iff_not, List.mem_filter,
        decide_eq_true_eq, not_and] at hnb
      have hbos : b ∉ outList c := hnb hb
      obtain ⟨d, hd, hdb⟩ := List.mem_map.1 hb
      obtain ⟨l', r', h', _⟩ := hc.sound d hd
      rcases NT.parent h' with e | ⟨a'', l'', r'', h'', hx⟩
      · injection e with e1 _ _
        rw [← hdb]; exact e1
      · exfalso
        apply hbos
        rw [hc.mem_outList hv]
        refine ⟨a'', l'', r'', h'', ?_⟩
        rcases hx with e | e
        · left; rw [← e, ← hdb]; rfl
        · right; rw [← e, ← hdb]; rfl
  simp only [Topology.topOf, key]

/-- `DecayChain.outs` before sorting: the daughters that never decay are exactly the leaves, each once -/
theorem Rep.finals_perm {c : Chain α} {a : α} {l r : NT α} (hc : Rep c (NT.node a l r))
    (hv : (NT.node a l r).verts.Nodup) : (splitTypes c).2.2.Perm (NT.node a l r).leaves := by
  have hN := NT.self_mem_subs (NT.node a l r)
  have e : (splitTypes c).2.2 = (outList c).filter
      (fun i => !((coreList c).filter fun i => (outList c).contains i).contains i) := rfl
  rw [e, List.perm_ext_iff_of_nodup (List.Nodup.sublist List.filter_sublist (hc.outList_nodup hv))
    (NT.leaves_nodup _ hv)]
  intro x
  simp only [Bool.not_eq_true', List.contains_eq_mem, decide_eq_false_iff_not, List.mem_filter,
    decide_eq_true_eq, not_and]
  constructor
  · rintro ⟨hos, hni⟩
    obtain ⟨a', l', r', h', hx⟩ := (hc.mem_outList hv x).1 hos
    have ch := NT.children_mem h'
    obtain ⟨s, hs, hsn⟩ : ∃ s, s ∈ (NT.node a l r).subs ∧ s.name = x := by
      rcases hx with e | e
      · exact ⟨l', ch.1, e.symm⟩
      · exact ⟨r', ch.2, e.symm⟩
    cases s with
    | leaf b =>
      simp only [NT.name] at hsn; subst hsn
      exact (NT.leaf_mem_subs _ _).1 hs
    | node b l'' r'' =>
      simp only [NT.name] at hsn; subst hsn
      exact absurd hos (hni (hc.complete _ _ _ hs))
  · intro hx
    have hlf := (NT.leaf_mem_subs _ _).2 hx
    constructor
    · rcases NT.parent hlf with e | ⟨a'', l'', r'', h'', hc'⟩
      · cases e
      · rw [hc.mem_outList hv]
        refine ⟨a'', l'', r'', h'', ?_⟩
        rcases hc' with e | e
        · left; rw [← e]; rfl
        · right; rw [← e]; rfl
    · intro hcore _
      obtain ⟨d, hd, hdx⟩ := List.mem_map.1 hcore
      obtain ⟨l', r', h', _⟩ := hc.sound d hd
      have := NT.eq_of_name hv h' hlf (by simp [NT.name, hdx])
      cases this

end rep

/-! ## `sorted_table` of such a chain -/
section table
variable {α : Type} [DecidableEq α] [LT α] [DecidableLT α]

theorem flatMap_congr' {β γ : Type} (l : List β) (f g : β → List γ) (h : ∀ x ∈ l, f x = g x) :
    l.flatMap f = l.flatMap g := by
  induction l with
  | nil => rfl
  | cons a l ih =>
    simp only [List.flatMap_cons, h a List.mem_cons_self, ih (fun x hx => h x (List.mem_cons_of_mem _ hx))]

omit [DecidableEq α] in
theorem isort_singleton (a : α) : isort [a] = [a] := rfl

omit [LT α] [DecidableLT α] in
/-- the inner `for j in i.outs: decay_dict[i.core] += decay_dict[j]` -/
theorem stFold (k : α) (outs : List α) (d1 : Dict α (List α)) (acc : List α) (hk : k ∉ outs)
    (hacc : d1.get? k = some acc) :
    outs.foldl (fun d j => d.set k ((d.get? k).getD [] ++ (d.get? j).getD [])) d1
      = d1.set k (acc ++ outs.flatMap fun j => (d1.get? j).getD []) := by
  induction outs generalizing d1 acc with
  | nil => simp [Dict.set_eq_self _ _ _ hacc]
  | cons j outs ih =>
    simp only [List.mem_cons, not_or] at hk
    simp only [List.foldl_cons, hacc, Option.getD_some]
    rw [ih (d1.set k (acc ++ (d1.get? j).getD [])) (acc ++ (d1.get? j).getD []) hk.2 (Dict.get?_set_self _ _ _)]
    rw [Dict.set_set]
    congr 1
    simp only [List.flatMap_cons, List.append_assoc]
    congr 2
    apply flatMap_congr'
    intro x hx
    rw [Dict.get?_set_ne]
    intro e; subst e; exact hk.2 hx

/-- the dictionary after the decay `i` has been entered -/
def stEnter (i : Decay α) (d : Dict α (List α)) : Dict α (List α) :=
  d.set i.core (isort (i.outs.flatMap fun j => (d.get? j).getD []))

theorem stPass_cons_pos (i : Decay α) (rest : Chain α) (d : Dict α (List α)) (hk : i.core ∉ i.outs)
    (hall : (i.outs.all fun j => d.has j) = true) : stPass (i :: rest) d = stPass rest (stEnter i d) := by
  simp only [stPass, hall, if_true]
  congr 1
  rw [stFold i.core i.outs (d.set i.core []) [] hk (Dict.get?_set_self _ _ _)]
  simp only [Dict.set_set, Dict.get?_set_self, Option.getD_some, List.nil_append, stEnter]
  congr 2
  apply flatMap_congr'
  intro x hx
  rw [Dict.get?_set_ne]
  intro e; subst e; exact hk hx

theorem stPass_cons_neg (i : Decay α) (rest : Chain α) (d : Dict α (List α))
    (hall : (i.outs.all fun j => d.has j) = false) :
    stPass (i :: rest) d = ((stPass rest d).1, i :: (stPass rest d).2) := by
  simp only [stPass, hall]
  rfl

/-- loop invariant of `sorted_table` for a chain `c` of the tree `N`: `rem` is what is left of `c` -/
structure StInv (c : Chain α) (N : NT α) (rem : Chain α) (d : Dict α (List α)) : Prop where
  keys : d.keys.Nodup
  sound : ∀ x L, d.get? x = some L → ∃ s ∈ N.subs, s.name = x ∧ L = isort s.leaves
  leaves : ∀ a ∈ N.leaves, d.has a = true
  done : ∀ dcy ∈ c, dcy ∉ rem → d.has dcy.core = true
  sub : ∀ dcy ∈ rem, dcy ∈ c

theorem StInv.enter (hα : LinLt α) {c : Chain α} {N : NT α} (hc : Rep c N) (hv : N.verts.Nodup)
    {kept rest : Chain α} {i : Decay α} {d : Dict α (List α)} (h : StInv c N (kept ++ i :: rest) d)
    (hall : (i.outs.all fun j => d.has j) = true) :
    i.core ∉ i.outs ∧ StInv c N (kept ++ rest) (stEnter i d) := by
  have hic : i ∈ c := h.sub i (by simp)
  obtain ⟨l, r, hn, hp⟩ := hc.sound i hic
  obtain ⟨n1, n2, n3⟩ := NT.node_names_ne hn hv
  have hk : i.core ∉ i.outs := by
    intro hm
    have := hp.mem_iff.1 hm
    simp only [List.mem_cons, List.mem_nil_iff, or_false] at this
    rcases this with e | e
    · exact n1 e
    · exact n2 e
  refine ⟨hk, ?_⟩
  have ch := NT.children_mem hn
  rw [List.all_eq_true] at hall
  have val : ∀ s, s ∈ N.subs → s.name ∈ i.outs → d.get? s.name = some (isort s.leaves) := by
    intro s hs hm
    obtain ⟨L, hL⟩ := (Dict.has_iff_get d _).1 (hall _ hm)
    obtain ⟨s', hs', hn', hL'⟩ := h.sound _ _ hL
    have := NT.eq_of_name hv hs' hs hn'
    subst this
    rw [hL, hL']
  have ml : l.name ∈ i.outs := hp.mem_iff.2 (by simp)
  have mr : r.name ∈ i.outs := hp.mem_iff.2 (by simp)
  have hval : isort (i.outs.flatMap fun j => (d.get? j).getD []) = isort (NT.node i.core l r).leaves := by
    rw [isort_eq_iff_perm hα]
    refine (List.Perm.flatMap_right _ hp).trans ?_
    simp only [List.flatMap_cons, List.flatMap_nil, List.append_nil, val l ch.1 ml, val r ch.2 mr,
      Option.getD_some, NT.leaves]
    exact List.Perm.append (isort_perm _) (isort_perm _)
  refine ⟨Dict.keys_set_nodup _ _ _ h.keys, ?_, ?_, ?_, ?_⟩
  · intro x L hx
    simp only [stEnter, Dict.get?_set] at hx
    by_cases e : i.core = x
    · simp only [if_pos e, Option.some.injEq] at hx
      exact ⟨_, hn, by simpa [NT.name] using e, by rw [← hx, hval]⟩
    · simp only [if_neg e] at hx
      exact h.sound x L hx
  · intro a ha
    rw [Dict.has_iff, stEnter, Dict.mem_keys_set]
    exact Or.inr ((Dict.has_iff _ _).1 (h.leaves a ha))
  · intro dcy hdc hnr
    rw [Dict.has_iff, stEnter, Dict.mem_keys_set]
    by_cases e : dcy = i
    · left; rw [e]
    · right
      rw [← Dict.has_iff]
      apply h.done dcy hdc
      intro hm
      apply hnr
      simp only [List.mem_append, List.mem_cons] at hm ⊢
      rcases hm with hm | hm | hm
      · exact Or.inl hm
      · exact absurd hm e
      · exact Or.inr hm
  · intro dcy hm
    apply h.sub
    simp only [List.mem_append, List.mem_cons] at hm ⊢
    rcases hm with hm | hm
    · exact Or.inl hm
    · exact Or.inr (Or.inr hm)

/-- one `for i in chain` pass keeps the invariant -/
theorem StInv.pass (hα : LinLt α) {c : Chain α} {N : NT α} (hc : Rep c N) (hv : N.verts.Nodup)
    (rest kept : Chain α) (d : Dict α (List α)) (h : StInv c N (kept ++ rest) d) :
    StInv c N (kept ++ (stPass rest d).2) (stPass rest d).1 := by
  induction rest generalizing kept d with
  | nil => simpa [stPass] using h
  | cons i rest ih =>
    cases hall : (i.outs.all fun j => d.has j) with
    | true =>
      obtain ⟨hk, h'⟩ := h.enter hα hc hv hall
      rw [stPass_cons_pos i rest d hk hall]
      exact ih kept _ h'
    | false =>
      rw [stPass_cons_neg i rest d hall]
      have h' : StInv c N ((kept ++ [i]) ++ rest) d := by simpa using h
      have := ih (kept ++ [i]) d h'
      simpa using this

theorem stPass_length_le (rest : Chain α) (d : Dict α (List α)) : (stPass rest d).2.length ≤ rest.length := by
  induction rest generalizing d with
  | nil => simp [stPass]
  | cons i rest ih =>
    simp only [stPass]
    split
    · exact Nat.le_succ_of_le (ih _)
    · simp only [List.length_cons]; exact Nat.succ_le_succ (ih _)

/-- a pass that removes nothing found no decay whose daughters are all known -/
theorem stPass_stuck (rest : Chain α) (d : Dict α (List α)) (h : (stPass rest d).2.length = rest.length) :
    ∀ i ∈ rest, (i.outs.all fun j => d.has j) = false := by
  induction rest generalizing d with
  | nil => intro i hi; simp at hi
  | cons i rest ih =>
    cases hall : (i.outs.all fun j => d.has j) with
    | true =>
      exfalso
      simp only [stPass, hall, if_true, List.length_cons] at h
      have := stPass_length_le rest
        ((i.outs.foldl (fun d j => d.set i.core ((d.get? i.core).getD [] ++ (d.get? j).getD [])) (d.set i.core [])).set
          i.core (isort (((i.outs.foldl (fun d j => d.set i.core ((d.get? i.core).getD [] ++ (d.get? j).getD []))
            (d.set i.core [])).get? i.core).getD [])))
      omega
    | false =>
      rw [stPass_cons_neg i rest d hall] at h
      simp only [List.length_cons, Nat.add_right_cancel_iff] at h
      intro x hx
      rcases List.mem_cons.1 hx with rfl | hx
      · exact hall
      · exact ih d h x hx

/-- as long as decays are left, a pass enters at least one (the tree has no cycle) -/
theorem StInv.progress {c : Chain α} {N : NT α} (hc : Rep c N) (hv : N.verts.Nodup)
    {rem : Chain α} {d : Dict α (List α)} (h : StInv c N rem d) (hne : rem ≠ []) :
    (stPass rem d).2.length < rem.length := by
  rcases Nat.lt_or_ge (stPass rem d).2.length rem.length with hlt | hge
  · exact hlt
  exfalso
  have heq : (stPass rem d).2.length = rem.length := Nat.le_antisymm (stPass_length_le _ _) hge
  have stuck := stPass_stuck rem d heq
  have all : ∀ s : NT α, s ∈ N.subs → d.has s.name = true := by
    intro s
    induction s with
    | leaf a => intro hs; exact h.leaves a ((NT.leaf_mem_subs _ _).1 hs)
    | node a l r ihl ihr =>
      intro hs
      have ch := NT.children_mem hs
      obtain ⟨dcy, hd, hda, hp⟩ := hc.decay hv hs
      by_cases hr : dcy ∈ rem
      · exfalso
        have := stuck dcy hr
        rw [← Bool.not_eq_true] at this
        apply this
        rw [List.all_eq_true]
        intro j hj
        have := hp.mem_iff.1 hj
        simp only [List.mem_cons, List.mem_nil_iff, or_false] at this
        rcases this with e | e
        · rw [e]; exact ihl ch.1
        · rw [e]; exact ihr ch.2
      · simpa [NT.name, hda] using h.done dcy hd hr
  cases rem with
  | nil => exact hne rfl
  | cons i rest =>
    have hi : i ∈ c := h.sub i List.mem_cons_self
    obtain ⟨l, r, hn, hp⟩ := hc.sound i hi
    have ch := NT.children_mem hn
    have := stuck i List.mem_cons_self
    rw [← Bool.not_eq_true] at this
    apply this
    rw [List.all_eq_true]
    intro j hj
    have := hp.mem_iff.1 hj
    simp only [List.mem_cons, List.mem_nil_iff, or_false] at this
    rcases this with e | e
    · rw [e]; exact all l ch.1
    · rw [e]; exact all r ch.2

/-- the `while chain:` loop terminates with every decay entered -/
theorem StInv.loop (hα : LinLt α) {c : Chain α} {N : NT α} (hc : Rep c N) (hv : N.verts.Nodup)
    (fuel : Nat) (rem : Chain α) (d : Dict α (List α)) (h : StInv c N rem d) (hf : rem.length ≤ fuel) :
    ∃ d', stLoop fuel rem d = some d' ∧ StInv c N [] d' := by
  induction fuel generalizing rem d with
  | zero =>
    cases rem with
    | nil => exact ⟨d, by simp [stLoop], h⟩
    | cons i rest => simp at hf
  | succ fuel ih =>
    cases rem with
    | nil => exact ⟨d, by simp [stLoop], h⟩
    | cons i rest =>
      have hp := h.progress hc hv (by simp)
      have hinv := StInv.pass hα hc hv (i :: rest) [] d (by simpa using h)
      simp only [List.nil_append] at hinv
      have hne : ¬ (stPass (i :: rest) d).2.length = (i :: rest).length := by omega
      simp only [stLoop, hne, if_false]
      apply ih _ _ hinv
      simp only [List.length_cons] at hf hp ⊢
      omega

omit [LT α] [DecidableLT α] in
theorem initDict (l : List α) (d : Dict α (List α)) (hd : d.keys.Nodup) :
    (l.foldl (fun d i => d.set i [i]) d).keys.Nodup ∧
    ∀ x, (l.foldl (fun d i => d.set i [i]) d).get? x = if x ∈ l then some [x] else d.get? x := by
  induction l generalizing d with
  | nil => exact ⟨hd, fun x => by simp⟩
  | cons a l ih =>
    obtain ⟨h1, h2⟩ := ih (d.set a [a]) (Dict.keys_set_nodup _ _ _ hd)
    refine ⟨h1, ?_⟩
    intro x
    simp only [List.foldl_cons, h2, Dict.get?_set, List.mem_cons]
    by_cases hx : x ∈ l
    · simp [hx]
    · by_cases e : a = x
      · subst e; simp
      · have : ¬ x = a := fun e' => e e'.symm
        simp [hx, e, this]

/-- ★ `sorted_table` of ANY chain that consists of the decays of the tree `a → l r` (any order of decays and of
daughters) returns, and the returned dictionary holds for every vertex of the tree exactly the sorted list of
the final particles below it. -/
theorem sortedTable_rep (hα : LinLt α) {c : Chain α} {a : α} {l r : NT α} (hc : Rep c (NT.node a l r))
    (hv : (NT.node a l r).verts.Nodup) :
    ∃ t, sortedTable c = some t ∧ t.keys.Nodup ∧
      t.Perm ((NT.node a l r).subs.map fun s => (s.name, isort s.leaves)) := by
  have htop := hc.topOf hv
  have hfin := hc.finals_perm hv
  have hmem : ∀ x, x ∈ finalsOf c ↔ x ∈ (NT.node a l r).leaves := by
    intro x
    simp only [finalsOf]
    rw [(isort_perm _).mem_iff, hfin.mem_iff]
  obtain ⟨k0, g0⟩ := initDict (finalsOf c) ([] : Dict α (List α)) (by simp [Dict.keys])
  have inv0 : StInv c (NT.node a l r) c ((finalsOf c).foldl (fun d i => d.set i [i]) []) := by
    refine ⟨k0, ?_, ?_, ?_, fun _ h => h⟩
    · intro x L hx
      rw [g0] at hx
      by_cases hm : x ∈ finalsOf c
      · simp only [if_pos hm, Option.some.injEq] at hx
        refine ⟨.leaf x, (NT.leaf_mem_subs _ _).2 ((hmem x).1 hm), rfl, ?_⟩
        rw [← hx]; rfl
      · simp [hm, Dict.get?] at hx
    · intro x hx
      rw [Dict.has_iff_get, g0]
      exact ⟨[x], by simp [(hmem x).2 hx]⟩
    · intro dcy h1 h2; exact absurd h1 h2
  obtain ⟨d', hl, inv⟩ := StInv.loop hα hc hv c.length c _ inv0 (Nat.le_refl _)
  have hN := NT.self_mem_subs (NT.node a l r)
  -- every vertex is a key
  have hall : ∀ s, s ∈ (NT.node a l r).subs → d'.get? s.name = some (isort s.leaves) := by
    intro s hs
    have hhas : d'.has s.name = true := by
      cases s with
      | leaf b => exact inv.leaves b ((NT.leaf_mem_subs _ _).1 hs)
      | node b l' r' =>
        obtain ⟨dcy, hd, hdb, _⟩ := hc.decay hv hs
        simpa [NT.name, hdb] using inv.done dcy hd (by simp)
    obtain ⟨L, hL⟩ := (Dict.has_iff_get _ _).1 hhas
    obtain ⟨s', hs', hn', hL'⟩ := inv.sound _ _ hL
    have := NT.eq_of_name hv hs' hs hn'
    subst this
    rw [hL, hL']
  have htopv : d'.get? a = some (isort (finalsOf c)) := by
    have := hall _ hN
    simp only [NT.name] at this
    rw [this]
    congr 1
    rw [isort_eq_iff_perm hα]
    exact ((isort_perm _).trans hfin).symm
  refine ⟨d', ?_, inv.keys, ?_⟩
  · simp only [sortedTable, htop, hl]
    rw [Dict.set_eq_self _ _ _ htopv]
  · have hv' : (((NT.node a l r).subs.map fun s => (s.name, isort s.leaves)).map (·.1)).Nodup := by
      rw [List.map_map]; exact hv
    rw [List.perm_ext_iff_of_nodup (Dict.nodup_of_keys _ inv.keys) (nodup_of_nodup_map _ _ hv')]
    rintro ⟨x, L⟩
    rw [Dict.mem_iff_get _ inv.keys]
    simp only [List.mem_map, Prod.mk.injEq]
    constructor
    · intro hx
      obtain ⟨s, hs, hn, hL⟩ := inv.sound _ _ hx
      exact ⟨s, hs, hn, hL.symm⟩
    · rintro ⟨s, hs, hn, hL⟩
      rw [← hn, ← hL]
      exact hall s hs

end table

end TfPwaV.Topology
