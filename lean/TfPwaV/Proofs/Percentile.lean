import TfPwaV.Gen.PercentileR
import TfPwaV.Model.Bins
import Mathlib.Tactic.Linarith
import Mathlib.Tactic.NormNum
import Mathlib.Tactic.Ring
import Mathlib.Tactic.FieldSimp
import Mathlib.Algebra.Order.Floor.Semiring
import Mathlib.Algebra.Order.Floor.Semifield
import Mathlib.Data.Nat.ModEq
/-! Helper lemmas for C20 (np.percentile / single_split_bound populations), about the ℝ-instance of
`templates/Percentile.lean.in`. -/
open TfPwaV.ScalarR
namespace TfPwaV.PercentileR
noncomputable section

theorem getD_eq (s : List ℝ) (i : Nat) (hi : i < s.length) : s.getD i 0 = s[i] := by simp [hi]

abbrev Sorted (s : List ℝ) : Prop := s.Pairwise (· ≤ ·)

/-- `#{x ∈ data : x < c}` -/
def cntLt (data : List ℝ) (c : ℝ) : Nat := data.countP fun x => decide (x < c)
/-- `#{x ∈ data : x ≤ c}` -/
def cntLe (data : List ℝ) (c : ℝ) : Nat := data.countP fun x => decide (x ≤ c)
/-- `#{x ∈ data : v ≤ x < v + w}`: multiplicity of the value `v` up to the window `w` -/
def cntWin (data : List ℝ) (w v : ℝ) : Nat := data.countP fun x => decide (v ≤ x ∧ x < v + w)

theorem delta_pos : (0 : ℝ) < delta := by unfold delta; norm_num

-- sorting ------------------------------------------------------------------------------------------------

theorem insertSorted_perm (x : ℝ) : ∀ l : List ℝ, (insertSorted x l).Perm (x :: l)
  | [] => by simp [insertSorted]
  | y :: ys => by
    unfold insertSorted
    split
    · exact List.Perm.refl _
    · exact ((insertSorted_perm x ys).cons y).trans (List.Perm.swap x y ys)

theorem sort_perm : ∀ l : List ℝ, (sort l).Perm l
  | [] => by simp [sort]
  | x :: xs => by
    unfold sort
    exact (insertSorted_perm x (sort xs)).trans ((sort_perm xs).cons x)

theorem insertSorted_sorted (x : ℝ) : ∀ l : List ℝ, Sorted l → Sorted (insertSorted x l)
  | [], _ => by simp [insertSorted, Sorted]
  | y :: ys, h => by
    unfold insertSorted
    have hy := List.pairwise_cons.mp h
    split
    · rename_i hxy
      refine List.pairwise_cons.mpr ⟨?_, h⟩
      intro z hz
      rcases List.mem_cons.mp hz with rfl | hz
      · exact hxy
      · exact le_trans hxy (hy.1 z hz)
    · rename_i hxy
      refine List.pairwise_cons.mpr ⟨?_, insertSorted_sorted x ys hy.2⟩
      intro z hz
      have := (insertSorted_perm x ys).mem_iff.mp hz
      rcases List.mem_cons.mp this with rfl | hz
      · exact le_of_lt (not_le.mp hxy)
      · exact hy.1 z hz

theorem sort_sorted : ∀ l : List ℝ, Sorted (sort l)
  | [] => by simp [sort, Sorted]
  | x :: xs => by unfold sort; exact insertSorted_sorted x _ (sort_sorted xs)

theorem sort_length (l : List ℝ) : (sort l).length = l.length := (sort_perm l).length_eq

theorem cntLt_sort (l : List ℝ) (c : ℝ) : cntLt (sort l) c = cntLt l c := (sort_perm l).countP_eq _
theorem cntLe_sort (l : List ℝ) (c : ℝ) : cntLe (sort l) c = cntLe l c := (sort_perm l).countP_eq _
theorem cntWin_sort (l : List ℝ) (w v : ℝ) : cntWin (sort l) w v = cntWin l w v := (sort_perm l).countP_eq _

-- order statistics of a sorted list ------------------------------------------------------------------------

theorem sorted_getD_le : ∀ (s : List ℝ), Sorted s → ∀ (i j : Nat), i ≤ j → j < s.length →
    s.getD i 0 ≤ s.getD j 0
  | [], _, _, _, _, hj => by simp at hj
  | x :: xs, h, i, j, hij, hj => by
    have hx := List.pairwise_cons.mp h
    cases j with
    | zero =>
      have : i = 0 := by omega
      subst this; exact le_refl _
    | succ j =>
      have hj' : j < xs.length := by simpa using hj
      cases i with
      | zero =>
        simp only [List.getD_cons_zero, List.getD_cons_succ]
        apply hx.1
        rw [getD_eq _ _ hj']
        exact List.getElem_mem hj'
      | succ i =>
        simp only [List.getD_cons_succ]
        exact sorted_getD_le xs hx.2 i j (by omega) hj'

theorem getD_mem (s : List ℝ) (i : Nat) (hi : i < s.length) : s.getD i 0 ∈ s := by
  rw [getD_eq _ _ hi]; exact List.getElem_mem hi

/-- at least `i+1` elements are `< c` when the `i`-th order statistic is -/
theorem cnt_lower : ∀ (s : List ℝ), Sorted s → ∀ (i : Nat), i < s.length → ∀ c : ℝ, s.getD i 0 < c →
    i + 1 ≤ cntLt s c
  | [], _, _, hi, _, _ => by simp at hi
  | x :: xs, h, i, hi, c, hc => by
    have hx := List.pairwise_cons.mp h
    have hx0 : x < c := by
      have := sorted_getD_le (x :: xs) h 0 i (Nat.zero_le _) hi
      simp only [List.getD_cons_zero] at this
      linarith
    unfold cntLt
    rw [List.countP_cons_of_pos (by simpa using hx0)]
    cases i with
    | zero => omega
    | succ i =>
      have := cnt_lower xs hx.2 i (by simpa using hi) c (by simpa using hc)
      unfold cntLt at this
      omega

/-- at least `i+1` elements are `≤ c` when the `i`-th order statistic is -/
theorem cnt_lower_le : ∀ (s : List ℝ), Sorted s → ∀ (i : Nat), i < s.length → ∀ c : ℝ, s.getD i 0 ≤ c →
    i + 1 ≤ cntLe s c
  | [], _, _, hi, _, _ => by simp at hi
  | x :: xs, h, i, hi, c, hc => by
    have hx := List.pairwise_cons.mp h
    have hx0 : x ≤ c := by
      have := sorted_getD_le (x :: xs) h 0 i (Nat.zero_le _) hi
      simp only [List.getD_cons_zero] at this
      linarith
    unfold cntLe
    rw [List.countP_cons_of_pos (by simpa using hx0)]
    cases i with
    | zero => omega
    | succ i =>
      have := cnt_lower_le xs hx.2 i (by simpa using hi) c (by simpa using hc)
      unfold cntLe at this
      omega

/-- at most `i` elements are `< c` when `c ≤` the `i`-th order statistic -/
theorem cnt_upper : ∀ (s : List ℝ), Sorted s → ∀ (i : Nat), i < s.length → ∀ c : ℝ, c ≤ s.getD i 0 →
    cntLt s c ≤ i
  | [], _, _, hi, _, _ => by simp at hi
  | x :: xs, h, i, hi, c, hc => by
    have hx := List.pairwise_cons.mp h
    cases i with
    | zero =>
      simp only [List.getD_cons_zero] at hc
      unfold cntLt
      rw [Nat.le_zero, List.countP_eq_zero]
      intro y hy
      have : x ≤ y := by
        rcases List.mem_cons.mp hy with rfl | hy
        · exact le_refl _
        · exact hx.1 y hy
      simp only [decide_eq_true_eq, not_lt]
      linarith
    | succ i =>
      have := cnt_upper xs hx.2 i (by simpa using hi) c (by simpa using hc)
      unfold cntLt at this ⊢
      simp only [List.countP_cons]
      split <;> omega

/-- elements `< c` beyond position `i` lie in the window `[s_i, s_i + w)` when `c ≤ s_i + w` -/
theorem cnt_upper_win : ∀ (s : List ℝ), Sorted s → ∀ (i : Nat), i < s.length → ∀ c w : ℝ,
    c ≤ s.getD i 0 + w → cntLt s c ≤ i + cntWin s w (s.getD i 0)
  | [], _, _, hi, _, _, _ => by simp at hi
  | x :: xs, h, i, hi, c, w, hc => by
    have hx := List.pairwise_cons.mp h
    cases i with
    | zero =>
      simp only [List.getD_cons_zero] at hc ⊢
      unfold cntLt cntWin
      rw [Nat.zero_add]
      apply List.countP_mono_left
      intro y hy hyc
      have : x ≤ y := by
        rcases List.mem_cons.mp hy with rfl | hy
        · exact le_refl _
        · exact hx.1 y hy
      simp only [decide_eq_true_eq] at hyc ⊢
      exact ⟨this, by linarith⟩
    | succ i =>
      have := cnt_upper_win xs hx.2 i (by simpa using hi) c w (by simpa using hc)
      simp only [List.getD_cons_succ]
      unfold cntLt cntWin at this ⊢
      simp only [List.countP_cons]
      split <;> split <;> omega

theorem cntLt_le_length (s : List ℝ) (c : ℝ) : cntLt s c ≤ s.length := List.countP_le_length

theorem cntLt_mono (s : List ℝ) (a b : ℝ) (h : a ≤ b) : cntLt s a ≤ cntLt s b := by
  unfold cntLt
  apply List.countP_mono_left
  intro y _ hy
  simp only [decide_eq_true_eq] at hy ⊢
  linarith

-- lerp / quantile --------------------------------------------------------------------------------------------

/-- numpy's two branches of `_lerp` are the same real function -/
theorem lerp_eq (a b t : ℝ) : lerp a b t = a + (b - a) * t := by
  unfold lerp; split <;> ring

theorem lerp_between (a b t : ℝ) (hab : a ≤ b) (h0 : 0 ≤ t) (h1 : t ≤ 1) : a ≤ lerp a b t ∧ lerp a b t ≤ b := by
  rw [lerp_eq]
  constructor
  · nlinarith
  · nlinarith

/-- the index `⌊(N-1) q⌋` and the order statistics between which the quantile lies -/
theorem quantile_between (s : List ℝ) (hs : Sorted s) (hne : s ≠ []) (q : ℝ) (hq0 : 0 ≤ q) (hq1 : q ≤ 1) :
    Nat.floor ((s.length - 1 : ℕ) * q : ℝ) < s.length ∧
    s.getD (Nat.floor ((s.length - 1 : ℕ) * q : ℝ)) 0 ≤ quantileSorted s q ∧
    quantileSorted s q ≤ s.getD (min (Nat.floor ((s.length - 1 : ℕ) * q : ℝ) + 1) (s.length - 1)) 0 := by
  have hlen : 0 < s.length := List.length_pos_iff.mpr hne
  set A : ℕ := s.length - 1 with hA
  have hA0 : (0 : ℝ) ≤ (A : ℝ) := Nat.cast_nonneg _
  have hvi0 : (0 : ℝ) ≤ (A : ℝ) * q := mul_nonneg hA0 hq0
  have hvi1 : (A : ℝ) * q ≤ (A : ℝ) := by nlinarith
  have hfl : Nat.floor ((A : ℝ) * q) ≤ A := by
    have := Nat.floor_le_floor hvi1
    rwa [Nat.floor_natCast] at this
  refine ⟨by omega, ?_⟩
  unfold quantileSorted kofNat kfloorNat
  simp only [← hA]
  by_cases hab : (A : ℝ) ≤ (A : ℝ) * q
  · rw [if_pos hab]
    have heq : (A : ℝ) * q = (A : ℝ) := le_antisymm hvi1 hab
    rw [heq, Nat.floor_natCast]
    have : min (A + 1) A = A := by omega
    rw [this]
    exact ⟨le_refl _, le_refl _⟩
  · rw [if_neg hab]
    have hlt : (A : ℝ) * q < (A : ℝ) := not_le.mp hab
    have hfl2 : Nat.floor ((A : ℝ) * q) < A := by
      rw [Nat.floor_lt hvi0]; exact hlt
    set i := Nat.floor ((A : ℝ) * q) with hi
    have hg0 : (0 : ℝ) ≤ (A : ℝ) * q - (i : ℝ) := by
      have := Nat.floor_le hvi0
      linarith
    have hg1 : (A : ℝ) * q - (i : ℝ) ≤ 1 := by
      have := Nat.lt_floor_add_one ((A : ℝ) * q)
      linarith
    have hmin : min (i + 1) A = i + 1 := by omega
    rw [hmin]
    have hle := sorted_getD_le s hs i (i + 1) (by omega) (by omega)
    exact lerp_between _ _ _ hle hg0 hg1

/-- ★ the order-statistic contract of `np.percentile` (method 'linear') on a sorted sample: with
`i = ⌊(N-1) q⌋`, at most `i+1` elements are `<` the quantile and at least `i+1` are `≤` it -/
theorem percentile_contract_sorted (s : List ℝ) (hs : Sorted s) (hne : s ≠ []) (q : ℝ) (hq0 : 0 ≤ q) (hq1 : q ≤ 1) :
    cntLt s (quantileSorted s q) ≤ Nat.floor ((s.length - 1 : ℕ) * q : ℝ) + 1 ∧
    Nat.floor ((s.length - 1 : ℕ) * q : ℝ) + 1 ≤ cntLe s (quantileSorted s q) := by
  obtain ⟨hi, hlo, hhi⟩ := quantile_between s hs hne q hq0 hq1
  constructor
  · by_cases hlast : Nat.floor ((s.length - 1 : ℕ) * q : ℝ) + 1 < s.length
    · have hmin : min (Nat.floor ((s.length - 1 : ℕ) * q : ℝ) + 1) (s.length - 1)
          = Nat.floor ((s.length - 1 : ℕ) * q : ℝ) + 1 := by omega
      rw [hmin] at hhi
      exact cnt_upper s hs _ hlast _ hhi
    · have := cntLt_le_length s (quantileSorted s q)
      omega
  · exact cnt_lower_le s hs _ hi _ hlo

/-- the shifted cut `quantile + w` (`w > 0`): at least `i+1` elements below it, at most `i+1+m` when every window
`[v, v+w)` starting at a sample value holds at most `m` sample values -/
theorem cut_count_sorted (s : List ℝ) (hs : Sorted s) (hne : s ≠ []) (q : ℝ) (hq0 : 0 ≤ q) (hq1 : q ≤ 1)
    (w : ℝ) (hw : 0 < w) (m : Nat) (hm : ∀ v ∈ s, cntWin s w v ≤ m) :
    Nat.floor ((s.length - 1 : ℕ) * q : ℝ) + 1 ≤ cntLt s (quantileSorted s q + w) ∧
    cntLt s (quantileSorted s q + w) ≤ Nat.floor ((s.length - 1 : ℕ) * q : ℝ) + 1 + m := by
  obtain ⟨hi, hlo, hhi⟩ := quantile_between s hs hne q hq0 hq1
  constructor
  · exact cnt_lower s hs _ hi _ (by linarith)
  · by_cases hlast : Nat.floor ((s.length - 1 : ℕ) * q : ℝ) + 1 < s.length
    · have hmin : min (Nat.floor ((s.length - 1 : ℕ) * q : ℝ) + 1) (s.length - 1)
          = Nat.floor ((s.length - 1 : ℕ) * q : ℝ) + 1 := by omega
      rw [hmin] at hhi
      have h1 := cnt_upper_win s hs _ hlast (quantileSorted s q + w) w (by linarith)
      have h2 := hm _ (getD_mem s _ hlast)
      omega
    · have := cntLt_le_length s (quantileSorted s q + w)
      omega

theorem pct_q (k n : Nat) : pctOf k n / c100 = (k : ℝ) / (n : ℝ) := by
  unfold pctOf c100 kofNat; ring

theorem floor_idx (A k n : Nat) : Nat.floor (((A : ℕ) : ℝ) * ((k : ℝ) / (n : ℝ))) = A * k / n := by
  have : ((A : ℕ) : ℝ) * ((k : ℝ) / (n : ℝ)) = (((A * k : ℕ)) : ℝ) / (n : ℝ) := by
    push_cast; ring
  rw [this, Nat.floor_div_eq_div]

/-- ★ the `k`-th cut of `single_split_bound(data, n)` has between `⌊(N-1)k/n⌋ + 1` and `⌊(N-1)k/n⌋ + 1 + m`
sample values strictly below it -/
theorem cut_count (data : List ℝ) (hne : data ≠ []) (n k : Nat) (hn : 0 < n) (hk : k ≤ n) (m : Nat)
    (hm : ∀ v ∈ data, cntWin data delta v ≤ m) :
    (data.length - 1) * k / n + 1 ≤ cntLt data (cut data n k) ∧
    cntLt data (cut data n k) ≤ (data.length - 1) * k / n + 1 + m := by
  have hne' : sort data ≠ [] := by
    intro h; apply hne
    have := sort_length data; rw [h] at this
    exact List.length_eq_zero_iff.mp this.symm
  have hq0 : (0 : ℝ) ≤ (k : ℝ) / (n : ℝ) := by positivity
  have hq1 : (k : ℝ) / (n : ℝ) ≤ 1 := by
    rw [div_le_one (by exact_mod_cast hn)]; exact_mod_cast hk
  have hm' : ∀ v ∈ sort data, cntWin (sort data) delta v ≤ m := by
    intro v hv
    rw [cntWin_sort]
    exact hm v ((sort_perm data).mem_iff.mp hv)
  have := cut_count_sorted (sort data) (sort_sorted data) hne' _ hq0 hq1 delta delta_pos m hm'
  rw [sort_length, floor_idx, cntLt_sort] at this
  unfold cut percentile
  rw [pct_q]
  exact this

/-- ★ the pure `np.percentile` contract for the percent arguments of `single_split_bound` -/
theorem percentile_contract (data : List ℝ) (hne : data ≠ []) (n k : Nat) (hn : 0 < n) (hk : k ≤ n) :
    cntLt data (percentile data (pctOf k n)) ≤ (data.length - 1) * k / n + 1 ∧
    (data.length - 1) * k / n + 1 ≤ cntLe data (percentile data (pctOf k n)) := by
  have hne' : sort data ≠ [] := by
    intro h; apply hne
    have := sort_length data; rw [h] at this
    exact List.length_eq_zero_iff.mp this.symm
  have hq0 : (0 : ℝ) ≤ (k : ℝ) / (n : ℝ) := by positivity
  have hq1 : (k : ℝ) / (n : ℝ) ≤ 1 := by
    rw [div_le_one (by exact_mod_cast hn)]; exact_mod_cast hk
  have := percentile_contract_sorted (sort data) (sort_sorted data) hne' _ hq0 hq1
  rw [sort_length, floor_idx, cntLt_sort, cntLe_sort] at this
  unfold percentile
  rw [pct_q]
  exact this

-- populations of the bins of one split --------------------------------------------------------------------

open TfPwaV.Bins

/-- population of a half-open bin: `np.logical_and(idx_data >= lb, idx_data < rb)` -/
def pop (data : List ℝ) (iv : ℝ × ℝ) : Nat := data.countP fun x => inIv x iv

theorem pop_add (data : List ℝ) (a b : ℝ) (hab : a ≤ b) : pop data (a, b) + cntLt data a = cntLt data b := by
  induction data with
  | nil => simp [pop, cntLt]
  | cons x xs ih =>
    unfold pop cntLt at ih ⊢
    simp only [inIv] at ih
    simp only [List.countP_cons, inIv, Bool.and_eq_true, decide_eq_true_eq]
    by_cases h1 : a ≤ x <;> by_cases h2 : x < b <;> by_cases h3 : x < a <;>
      simp only [h1, h2, h3, and_self, and_true, and_false, if_true, if_false] <;>
      first
        | (exfalso; linarith)
        | omega

theorem pop_zero (data : List ℝ) (a b : ℝ) (hba : b < a) : pop data (a, b) = 0 := by
  unfold pop
  rw [List.countP_eq_zero]
  intro x _
  simp only [inIv, Bool.and_eq_true, decide_eq_true_eq, not_and, not_lt]
  intro h; linarith

theorem mem_chain (rb : ℝ) : ∀ (cs : List ℝ) (lb : ℝ) (iv : ℝ × ℝ), iv ∈ chain lb cs rb →
    ∃ k, k ≤ cs.length ∧ iv = ((lb :: cs).getD k 0, (cs ++ [rb]).getD k 0)
  | [], lb, iv, h => by
    simp only [chain, List.mem_singleton] at h
    exact ⟨0, by simp, by simp [h]⟩
  | c :: cs, lb, iv, h => by
    simp only [chain, List.mem_cons] at h
    rcases h with h | h
    · exact ⟨0, by simp, by simp [h]⟩
    · obtain ⟨k, hk, hiv⟩ := mem_chain rb cs c iv h
      exact ⟨k + 1, by simp; omega, by simpa using hiv⟩

theorem cuts_length (data : List ℝ) (n : Nat) : (cuts data n).length = n - 1 := by simp [cuts]

theorem cuts_getD (data : List ℝ) (n j : Nat) (hj : j < n - 1) : (cuts data n).getD j 0 = cut data n (j + 1) := by
  simp [cuts, List.getD_eq_getElem?_getD, hj]

theorem div_step (A k n : Nat) (hn : 0 < n) :
    A * (k + 1) / n = A * k / n + A / n + if n ≤ A * k % n + A % n then 1 else 0 := by
  rw [Nat.mul_succ, Nat.add_div hn]

/-- ★ every bin of `single_split_bound(data, n, (lb, rb))` holds between `⌊(N-1)/n⌋ - m` and `⌊(N-1)/n⌋ + 1 + m`
of the `N` sample values, `m` = the largest number of sample values in a window `[v, v + 1e-6)` -/
theorem populations_bound (data : List ℝ) (hne : data ≠ []) (n : Nat) (hn : 0 < n) (lb rb : ℝ)
    (hlb : ∀ x ∈ data, lb ≤ x) (hrb : ∀ x ∈ data, x < rb) (m : Nat)
    (hm : ∀ v ∈ data, cntWin data delta v ≤ m) :
    ∀ iv ∈ chain lb (cuts data n) rb,
      (data.length - 1) / n ≤ pop data iv + m ∧ pop data iv ≤ (data.length - 1) / n + 1 + m := by
  intro iv hiv
  obtain ⟨k, hk, rfl⟩ := mem_chain rb _ lb iv hiv
  rw [cuts_length] at hk
  have hlen : 0 < data.length := List.length_pos_iff.mpr hne
  set A := data.length - 1 with hA
  -- left edge
  have hL : (k = 0 ∧ cntLt data ((lb :: cuts data n).getD k 0) = 0) ∨
      (0 < k ∧ A * k / n + 1 ≤ cntLt data ((lb :: cuts data n).getD k 0) ∧
        cntLt data ((lb :: cuts data n).getD k 0) ≤ A * k / n + 1 + m) := by
    cases k with
    | zero =>
      left
      refine ⟨rfl, ?_⟩
      simp only [List.getD_cons_zero]
      unfold cntLt
      rw [List.countP_eq_zero]
      intro x hx
      simp only [decide_eq_true_eq, not_lt]
      exact hlb x hx
    | succ j =>
      right
      refine ⟨Nat.succ_pos _, ?_⟩
      simp only [List.getD_cons_succ]
      rw [cuts_getD data n j (by omega)]
      exact cut_count data hne n (j + 1) hn (by omega) m hm
  -- right edge
  have hR : A * (k + 1) / n + 1 ≤ cntLt data ((cuts data n ++ [rb]).getD k 0) ∧
      cntLt data ((cuts data n ++ [rb]).getD k 0) ≤ A * (k + 1) / n + 1 + m := by
    by_cases hkn : k < n - 1
    · have : (cuts data n ++ [rb]).getD k 0 = cut data n (k + 1) := by
        have hk' : k < (cuts data n).length := by rw [cuts_length]; exact hkn
        rw [← cuts_getD data n k hkn]
        simp [List.getD_eq_getElem?_getD, List.getElem?_append_left hk']
      rw [this]
      exact cut_count data hne n (k + 1) hn (by omega) m hm
    · have hkeq : k = n - 1 := by omega
      have : (cuts data n ++ [rb]).getD k 0 = rb := by
        have hk' : k = (cuts data n).length := by rw [cuts_length]; exact hkeq
        rw [hk']
        simp [List.getD_eq_getElem?_getD]
      rw [this]
      have hall : cntLt data rb = data.length := by
        unfold cntLt
        rw [List.countP_eq_length]
        intro x hx
        simpa using hrb x hx
      have hk1 : k + 1 = n := by omega
      rw [hall, hk1, Nat.mul_div_cancel _ hn]
      omega
  have hstep := div_step A k n hn
  have hmod := Nat.mod_lt A hn
  generalize A * (k + 1) / n = X at hR hstep
  generalize hY : A * k / n = Y at hL hstep
  generalize A / n = F at hstep ⊢
  by_cases hab : (lb :: cuts data n).getD k 0 ≤ (cuts data n ++ [rb]).getD k 0
  · have hadd := pop_add data _ _ hab
    rcases hL with ⟨hk0, hL0⟩ | ⟨_, hL1, hL2⟩
    · subst hk0
      simp only [Nat.mul_zero, Nat.zero_div] at hY
      simp only [Nat.mul_zero, Nat.zero_mod, Nat.zero_add] at hstep
      split at hstep <;> omega
    · split at hstep <;> omega
  · have hz := pop_zero data _ _ (not_le.mp hab)
    have hmono := cntLt_mono data _ _ (le_of_lt (not_le.mp hab))
    rcases hL with ⟨hk0, hL0⟩ | ⟨_, hL1, hL2⟩
    · subst hk0
      simp only [Nat.mul_zero, Nat.zero_div] at hY
      simp only [Nat.mul_zero, Nat.zero_mod, Nat.zero_add] at hstep
      split at hstep <;> omega
    · split at hstep <;> omega

end
end TfPwaV.PercentileR
