import TfPwaV.Proofs.TopologyChain
/-! C14, all n, chain level (part 2): `_Chain_Graph.get_decay_chain` applied to a graph whose edge multiset is
that of a binary tree hanging under `top` returns a chain that consists of exactly the decays of that tree
(`getDecayChain_rep`), whatever the order of the edge list. -/
set_option linter.unusedSectionVars false
namespace TfPwaV.Topology

variable {α : Type} [DecidableEq α]

/-- the particle a graph vertex stands for in `get_decay_chain` (`BaseParticle(head + "node_k")` for strings) -/
def nmOf (mk : Nat → α) : Node α → α
  | .p a => a
  | .n k => mk k

/-- one edge of the loop of `get_decay_chain` -/
def ddStep (d : Dict α (List α)) (e : α × α) : Dict α (List α) :=
  d.set e.1 ((d.get? e.1).getD [] ++ [e.2])

theorem daughterDict_eq (mk : Nat → α) (g : Graph α) :
    daughterDict mk g = (g.edges.map fun e => (nmOf mk e.1, nmOf mk e.2)).foldl ddStep [] := by
  unfold daughterDict
  generalize ([] : Dict α (List α)) = acc
  induction g.edges generalizing acc with
  | nil => rfl
  | cons e es ih =>
    simp only [List.foldl_cons, List.map_cons]
    rw [ih]
    congr 1
    obtain ⟨e1, e2⟩ := e
    cases e1 <;> cases e2 <;> simp only [ddStep, nmOf] <;> split <;> simp_all

/-- daughters of `x` in an edge list, in list order -/
def dauOf (E : List (α × α)) (x : α) : List α := (E.filter fun e => decide (e.1 = x)).map (·.2)

theorem ddFold (E : List (α × α)) (d : Dict α (List α)) (hd : d.keys.Nodup) :
    (E.foldl ddStep d).keys.Nodup ∧
    (∀ x, ((E.foldl ddStep d).get? x).getD [] = (d.get? x).getD [] ++ dauOf E x) ∧
    (∀ x, (E.foldl ddStep d).get? x = none ↔ d.get? x = none ∧ ∀ e ∈ E, e.1 ≠ x) := by
  induction E generalizing d with
  | nil => exact ⟨hd, fun x => by simp [dauOf], fun x => by simp⟩
  | cons e E ih =>
    obtain ⟨h1, h2, h3⟩ := ih (ddStep d e) (Dict.keys_set_nodup _ _ _ hd)
    refine ⟨h1, ?_, ?_⟩
    · intro x
      rw [List.foldl_cons, h2 x]
      simp only [ddStep, Dict.get?_set, dauOf, List.filter_cons]
      by_cases hx : e.1 = x
      · simp [hx]
      · simp [hx]
    · intro x
      rw [List.foldl_cons, h3 x]
      simp only [ddStep, Dict.get?_set, List.mem_cons, forall_eq_or_imp]
      by_cases hx : e.1 = x
      · simp [hx]
      · simp [hx]

theorem ddFold_nil (E : List (α × α)) :
    (E.foldl ddStep []).keys.Nodup ∧
    ∀ x M, (E.foldl ddStep []).get? x = some M ↔ (M = dauOf E x ∧ M ≠ []) := by
  obtain ⟨h1, h2, h3⟩ := ddFold E ([] : Dict α (List α)) (by simp [Dict.keys])
  refine ⟨h1, ?_⟩
  intro x M
  have g2 := h2 x
  have g3 := h3 x
  simp only [Dict.get?, Option.getD_none, List.nil_append, true_and] at g2 g3
  constructor
  · intro hM
    rw [hM] at g2 g3
    simp only [Option.getD_some] at g2
    refine ⟨g2, ?_⟩
    intro hnil
    have : ∀ e ∈ E, e.1 ≠ x := by
      intro e he hex
      have : e.2 ∈ dauOf E x := by
        simp only [dauOf, List.mem_map, List.mem_filter, decide_eq_true_eq]
        exact ⟨e, ⟨he, hex⟩, rfl⟩
      rw [← g2, hnil] at this
      simp at this
    exact absurd (g3.2 this) (by simp)
  · rintro ⟨hM, hne⟩
    cases hg : (E.foldl ddStep []).get? x with
    | none =>
      exfalso
      have := g3.1 hg
      apply hne
      rw [hM, dauOf, List.map_eq_nil_iff, List.filter_eq_nil_iff]
      intro e he
      simpa using this e he
    | some M' =>
      rw [hg] at g2
      simp only [Option.getD_some] at g2
      rw [g2, hM]

theorem dauOf_perm {E E' : List (α × α)} (h : E.Perm E') (x : α) : (dauOf E x).Perm (dauOf E' x) :=
  (h.filter _).map _

/-! ### edges of a named tree -/

def NT.edgesN : NT α → List (α × α)
  | .leaf _ => []
  | .node a l r => (a, l.name) :: (a, r.name) :: (l.edgesN ++ r.edgesN)

theorem NT.dau_node (x a : α) (l r : NT α) :
    dauOf (NT.node a l r).edgesN x = (if a = x then [l.name, r.name] else []) ++ (dauOf l.edgesN x ++ dauOf r.edgesN x) := by
  simp only [dauOf, NT.edgesN, List.filter_cons, List.filter_append]
  by_cases h : a = x <;> simp [h]

theorem NT.dau_ne_nil (t : NT α) (x : α) (h : dauOf t.edgesN x ≠ []) : ∃ l r, NT.node x l r ∈ t.subs := by
  induction t with
  | leaf a => simp [dauOf, NT.edgesN] at h
  | node a l r ihl ihr =>
    rw [NT.dau_node] at h
    by_cases hax : a = x
    · subst hax; exact ⟨l, r, NT.self_mem_subs _⟩
    · simp only [if_neg hax, List.nil_append] at h
      by_cases hl : dauOf l.edgesN x = []
      · rw [hl, List.nil_append] at h
        obtain ⟨l', r', h'⟩ := ihr h
        exact ⟨l', r', by simp [NT.subs, h']⟩
      · obtain ⟨l', r', h'⟩ := ihl hl
        exact ⟨l', r', by simp [NT.subs, h']⟩

theorem NT.dau_nil_of_not_vert (t : NT α) (x : α) (h : x ∉ t.verts) : dauOf t.edgesN x = [] := by
  apply Classical.byContradiction
  intro hne
  obtain ⟨l, r, h'⟩ := t.dau_ne_nil x hne
  exact h (NT.mem_verts_of_sub h')

theorem NT.dau_of_node {t : NT α} (hv : t.verts.Nodup) {a : α} {l r : NT α} (h : NT.node a l r ∈ t.subs) :
    dauOf t.edgesN a = [l.name, r.name] := by
  induction t with
  | leaf b => simp [NT.subs] at h
  | node b l' r' ihl ihr =>
    have hv' := hv
    rw [NT.verts_node, List.nodup_cons, List.nodup_append, List.mem_append, not_or] at hv'
    obtain ⟨⟨nbl, nbr⟩, hl, hr, hd⟩ := hv'
    rw [NT.dau_node]
    simp only [NT.subs, List.mem_cons, List.mem_append] at h
    rcases h with e | h | h
    · injection e with e1 e2 e3
      subst e1; subst e2; subst e3
      simp [NT.dau_nil_of_not_vert _ _ nbl, NT.dau_nil_of_not_vert _ _ nbr]
    · have ha : a ∈ l'.verts := NT.mem_verts_of_sub h
      have hba : ¬ b = a := fun e => nbl (e ▸ ha)
      have har : a ∉ r'.verts := fun h2 => hd a ha a h2 rfl
      simp [hba, ihl hl h, NT.dau_nil_of_not_vert _ _ har]
    · have ha : a ∈ r'.verts := NT.mem_verts_of_sub h
      have hba : ¬ b = a := fun e => nbr (e ▸ ha)
      have hal : a ∉ l'.verts := fun h2 => hd a h2 a ha rfl
      simp [hba, ihr hr h, NT.dau_nil_of_not_vert _ _ hal]

/-! ### the named tree of a `Tr` -/

def Tr.nt (mk : Nat → α) : Tr α → NT α
  | .leaf a => .leaf a
  | .node k l r => .node (mk k) (l.nt mk) (r.nt mk)

theorem Tr.nt_name (mk : Nat → α) (t : Tr α) : (t.nt mk).name = nmOf mk t.root := by
  cases t <;> rfl

theorem Tr.nt_edges (mk : Nat → α) (t : Tr α) :
    (t.nt mk).edgesN = t.edges.map fun e => (nmOf mk e.1, nmOf mk e.2) := by
  induction t with
  | leaf a => rfl
  | node k l r ihl ihr =>
    simp only [Tr.nt, NT.edgesN, Tr.edges, List.map_cons, List.map_append, ihl, ihr, Tr.nt_name, nmOf]

theorem Tr.nt_leaves (mk : Nat → α) (t : Tr α) : (t.nt mk).leaves = t.leaves := by
  induction t with
  | leaf a => rfl
  | node k l r ihl ihr => simp only [Tr.nt, NT.leaves, Tr.leaves, ihl, ihr]

theorem Tr.nt_verts (mk : Nat → α) (t : Tr α) : (t.nt mk).verts = t.verts.map (nmOf mk) := by
  induction t with
  | leaf a => rfl
  | node k l r ihl ihr =>
    simp only [Tr.nt, NT.verts_node, Tr.verts, List.map_cons, List.map_append, ihl, ihr, nmOf]

theorem Tr.nt_groups (mk : Nat → α) (t : Tr α) : (t.nt mk).subs.map NT.leaves = t.groups := by
  induction t with
  | leaf a => rfl
  | node k l r ihl ihr =>
    simp only [Tr.nt, NT.subs, Tr.groups, List.map_cons, List.map_append, ihl, ihr, NT.leaves, Tr.leaves,
      Tr.nt_leaves]

/-- the tree a graph state denotes as a `DecayChain`: the vertex below `top` is merged with `top` -/
def Tr.chainTree (mk : Nat → α) (top : α) : Tr α → NT α
  | .leaf a => .leaf a
  | .node _ l r => .node top (l.nt mk) (r.nt mk)

/-- ★ `get_decay_chain`: for EVERY graph whose edge multiset is the tree `node k l r` hanging under `top`
(edges in any order) and every naming of the vertices that keeps them pairwise different, the call returns,
and the returned chain consists of exactly the decays of the tree with its root merged into `top`. -/
theorem getDecayChain_rep (mk : Nat → α) (top : α) (g : Graph α) (k : Nat) (l r : Tr α)
    (hg : g.edges.Perm ((Tr.node k l r).hang (Node.p top)))
    (hnames : (top :: (Tr.node k l r).verts.map (nmOf mk)).Nodup) :
    (NT.node top (l.nt mk) (r.nt mk)).verts.Nodup ∧
    ∃ c, getDecayChain mk g top = some c ∧ Rep c (NT.node top (l.nt mk) (r.nt mk)) := by
  -- named form of the hypotheses
  have hT : ((Tr.node k l r).nt mk) = NT.node (mk k) (l.nt mk) (r.nt mk) := rfl
  rw [← Tr.nt_verts, hT, NT.verts_node] at hnames
  have hvT : (NT.node (mk k) (l.nt mk) (r.nt mk)).verts.Nodup := by
    rw [NT.verts_node]; exact (List.nodup_cons.1 hnames).2
  have htopT : top ∉ (NT.node (mk k) (l.nt mk) (r.nt mk)).verts := by
    rw [NT.verts_node]; exact (List.nodup_cons.1 hnames).1
  have htk : top ≠ mk k := by
    intro e; apply htopT; rw [NT.verts_node, e]; exact List.mem_cons_self
  have hvN : (NT.node top (l.nt mk) (r.nt mk)).verts.Nodup := by
    rw [NT.verts_node]
    rw [List.nodup_cons] at hnames ⊢
    exact ⟨fun h => hnames.1 (List.mem_cons_of_mem _ h), (List.nodup_cons.1 hnames.2).2⟩
  refine ⟨hvN, ?_⟩
  -- the dictionary of daughters
  have hE : (g.edges.map fun e => (nmOf mk e.1, nmOf mk e.2)).Perm
      ((top, mk k) :: (NT.node (mk k) (l.nt mk) (r.nt mk)).edgesN) := by
    have := hg.map fun e => (nmOf mk e.1, nmOf mk e.2)
    rw [← hT, Tr.nt_edges]
    simpa [Tr.hang, Tr.root, nmOf] using this
  obtain ⟨hkeys, hget⟩ := ddFold_nil (g.edges.map fun e => (nmOf mk e.1, nmOf mk e.2))
  rw [← daughterDict_eq] at hkeys hget
  have hdau : ∀ x, (dauOf (g.edges.map fun e => (nmOf mk e.1, nmOf mk e.2)) x).Perm
      ((if top = x then [mk k] else []) ++ dauOf (NT.node (mk k) (l.nt mk) (r.nt mk)).edgesN x) := by
    intro x
    refine (dauOf_perm hE x).trans ?_
    simp only [dauOf, List.filter_cons]
    by_cases h : top = x <;> simp [h]
  have hself := NT.self_mem_subs (NT.node (mk k) (l.nt mk) (r.nt mk))
  -- d[top] = [tmp]
  have h1 : (daughterDict mk g).get? top = some [mk k] := by
    rw [hget]
    have := hdau top
    rw [if_pos rfl, NT.dau_nil_of_not_vert _ _ htopT, List.append_nil, List.perm_singleton] at this
    rw [this]; simp
  -- d[tmp] = the two daughters of the root, in some order
  obtain ⟨L, h2, hL⟩ : ∃ L, (daughterDict mk g).get? (mk k) = some L ∧ L.Perm [(l.nt mk).name, (r.nt mk).name] := by
    have := hdau (mk k)
    rw [if_neg htk, List.nil_append, NT.dau_of_node hvT hself] at this
    refine ⟨_, (hget _ _).2 ⟨rfl, ?_⟩, this⟩
    intro e; rw [e] at this; simpa using this.length_eq
  -- the chain
  let d2 : Dict α (List α) := ((daughterDict mk g).set top L).del (mk k)
  have hd2k : d2.keys.Nodup := Dict.keys_del_nodup _ _ (Dict.keys_set_nodup _ _ _ hkeys)
  have hd2 : ∀ x, d2.get? x = if mk k = x then none else if top = x then some L else (daughterDict mk g).get? x := by
    intro x; simp only [d2, Dict.get?_del, Dict.get?_set]
  let c : Chain α := d2.map fun kv => ⟨kv.1, kv.2⟩
  have hcore : coreList c = d2.keys := by simp [c, coreList, Dict.keys, List.map_map, Function.comp_def]
  have hmem : ∀ d : Decay α, d ∈ c ↔ d2.get? d.core = some d.outs := by
    intro d
    rw [← Dict.mem_iff_get _ hd2k]
    simp only [c, List.mem_map]
    constructor
    · rintro ⟨kv, hkv, rfl⟩; exact hkv
    · intro h; exact ⟨(d.core, d.outs), h, rfl⟩
  have hrep : Rep c (NT.node top (l.nt mk) (r.nt mk)) := by
    refine ⟨by rw [hcore]; exact hd2k, ?_, ?_⟩
    · intro d hd
      rw [hmem, hd2] at hd
      by_cases e1 : mk k = d.core
      · simp [e1] at hd
      · simp only [if_neg e1] at hd
        by_cases e2 : top = d.core
        · simp only [if_pos e2, Option.some.injEq] at hd
          refine ⟨l.nt mk, r.nt mk, ?_, by rw [← hd]; exact hL⟩
          rw [← e2]; exact NT.self_mem_subs _
        · simp only [if_neg e2] at hd
          obtain ⟨hM, hne⟩ := (hget _ _).1 hd
          have hp := hdau d.core
          rw [if_neg e2, List.nil_append, ← hM] at hp
          have hne' : dauOf (NT.node (mk k) (l.nt mk) (r.nt mk)).edgesN d.core ≠ [] := by
            intro e; rw [e] at hp; exact hne hp.eq_nil
          obtain ⟨l1, r1, hn⟩ := NT.dau_ne_nil _ _ hne'
          rw [NT.dau_of_node hvT hn] at hp
          refine ⟨l1, r1, ?_, hp⟩
          simp only [NT.subs, List.mem_cons, List.mem_append] at hn ⊢
          rcases hn with e | hn
          · injection e with e' _ _; exact absurd e'.symm e1
          · exact Or.inr hn
    · intro a l1 r1 hn
      rw [hcore, ← Classical.not_not (a := a ∈ d2.keys), ← Dict.get?_none_iff, hd2]
      simp only [NT.subs, List.mem_cons, List.mem_append] at hn
      rcases hn with e | hn
      · injection e with e' _ _
        subst e'
        simp [htk.symm]
      · have hnT : NT.node a l1 r1 ∈ (NT.node (mk k) (l.nt mk) (r.nt mk)).subs := by
          simp only [NT.subs, List.mem_cons, List.mem_append]; exact Or.inr hn
        have hav : a ∈ (l.nt mk).verts ++ (r.nt mk).verts := by
          rw [List.mem_append]
          rcases hn with hn | hn
          · exact Or.inl (NT.mem_verts_of_sub hn)
          · exact Or.inr (NT.mem_verts_of_sub hn)
        have e1 : ¬ mk k = a := by
          intro e
          have := (List.nodup_cons.1 (List.nodup_cons.1 hnames).2).1
          exact this (e ▸ hav)
        have e2 : ¬ top = a := by
          intro e
          exact (List.nodup_cons.1 hnames).1 (List.mem_cons_of_mem _ (e ▸ hav))
        simp only [if_neg e1, if_neg e2]
        have hp := hdau a
        rw [if_neg e2, List.nil_append, NT.dau_of_node hvT hnT] at hp
        have : (daughterDict mk g).get? a = some (dauOf (g.edges.map fun e => (nmOf mk e.1, nmOf mk e.2)) a) := by
          rw [hget]
          refine ⟨rfl, ?_⟩
          intro e; rw [e] at hp; simpa using hp.length_eq
        rw [this]; simp
  refine ⟨c, ?_, hrep⟩
  have htop := hrep.topOf hvN
  simp only [getDecayChain, h1, h2]
  show (topOf c).map (fun _ => c) = some c
  rw [htop]; rfl

end TfPwaV.Topology
