import TfPwaV.Model.TopologyNames
import TfPwaV.Proofs.Topology
/-! C14d: facts about particle names as structured values (List Char) that `standard_topology` needs. -/
namespace TfPwaV.Topology

theorem LinLt.char : LinLt Char := by
  refine ⟨fun a => Char.lt_irrefl a, fun a b c => Char.lt_trans, fun a b => ?_⟩
  by_cases h1 : a < b
  · exact Or.inl h1
  · by_cases h2 : b < a
    · exact Or.inr (Or.inr h2)
    · exact Or.inr (Or.inl (Char.le_antisymm (Char.not_lt.1 h2) (Char.not_lt.1 h1)))

theorem LinLt.ptL : LinLt PtL := by
  have hs : LinLt (List Char) := LinLt.list LinLt.char
  have hi := LinLt.int
  refine ⟨?_, ?_, ?_⟩
  · intro a h
    rcases h with h | ⟨_, h⟩
    · exact hs.irrefl _ h
    · exact hi.irrefl _ h
  · intro a b c hab hbc
    rcases hab with h1 | ⟨e1, h1⟩ <;> rcases hbc with h2 | ⟨e2, h2⟩
    · exact Or.inl (hs.trans _ _ _ h1 h2)
    · exact Or.inl (e2 ▸ h1)
    · exact Or.inl (e1 ▸ h2)
    · exact Or.inr ⟨e1.trans e2, hi.trans _ _ _ h1 h2⟩
  · intro a b
    rcases hs.tri a.name b.name with h | h | h
    · exact Or.inl (Or.inl h)
    · rcases hi.tri a.id b.id with h' | h' | h'
      · exact Or.inl (Or.inr ⟨h, h'⟩)
      · right; left
        cases a; cases b; simp_all
      · exact Or.inr (Or.inr (Or.inr ⟨h.symm, h'⟩))
    · exact Or.inr (Or.inr (Or.inl h))

/-! ## `join` -/

theorem app_comma_inj (a a' x y : List Char) (ha : ',' ∉ a) (ha' : ',' ∉ a')
    (h : a ++ ',' :: x = a' ++ ',' :: y) : a = a' ∧ x = y := by
  induction a generalizing a' with
  | nil =>
    cases a' with
    | nil => simpa using h
    | cons c a' =>
      simp only [List.nil_append, List.cons_append, List.cons.injEq] at h
      exact absurd (h.1 ▸ List.mem_cons_self) ha'
  | cons c a ih =>
    cases a' with
    | nil =>
      simp only [List.nil_append, List.cons_append, List.cons.injEq] at h
      exact absurd (h.1 ▸ List.mem_cons_self) ha
    | cons c' a' =>
      simp only [List.cons_append, List.cons.injEq] at h
      have := ih a' (fun m => ha (List.mem_cons_of_mem _ m)) (fun m => ha' (List.mem_cons_of_mem _ m)) h.2
      exact ⟨by rw [h.1, this.1], this.2⟩

theorem app_comma_ne (a x a' : List Char) (ha' : ',' ∉ a') : a ++ ',' :: x ≠ a' := by
  intro h
  apply ha'
  rw [← h]
  simp

theorem joinL_cons2 (sep a b : List Char) (r : List (List Char)) :
    joinL sep (a :: b :: r) = a ++ sep ++ joinL sep (b :: r) := rfl

/-- `", ".join` is injective on non-empty lists of comma-free parts -/
theorem joinL_inj (p q : List (List Char)) (hp : p ≠ []) (hq : q ≠ [])
    (hpc : ∀ a ∈ p, ',' ∉ a) (hqc : ∀ a ∈ q, ',' ∉ a)
    (h : joinL [',', ' '] p = joinL [',', ' '] q) : p = q := by
  induction p generalizing q with
  | nil => exact absurd rfl hp
  | cons a p ih =>
    cases q with
    | nil => exact absurd rfl hq
    | cons b q =>
      have hac : ',' ∉ a := hpc a List.mem_cons_self
      have hbc : ',' ∉ b := hqc b List.mem_cons_self
      cases p with
      | nil =>
        cases q with
        | nil =>
          have : a = b := h
          rw [this]
        | cons b2 r' =>
          rw [joinL_cons2] at h
          have h' : b ++ ',' :: (' ' :: joinL [',', ' '] (b2 :: r')) = a := by
            rw [show joinL [',', ' '] [a] = a from rfl] at h
            rw [h]; simp
          exact absurd h' (app_comma_ne _ _ _ hac)
      | cons a2 r =>
        cases q with
        | nil =>
          rw [joinL_cons2] at h
          have h' : a ++ ',' :: (' ' :: joinL [',', ' '] (a2 :: r)) = b := by
            rw [show joinL [',', ' '] [b] = b from rfl] at h
            rw [← h]; simp
          exact absurd h' (app_comma_ne _ _ _ hbc)
        | cons b2 r' =>
          rw [joinL_cons2, joinL_cons2] at h
          have h' : a ++ ',' :: (' ' :: joinL [',', ' '] (a2 :: r))
              = b ++ ',' :: (' ' :: joinL [',', ' '] (b2 :: r')) := by
            simpa using h
          have := app_comma_inj _ _ _ _ hac hbc h'
          have e := ih (b2 :: r') (by simp) (by simp)
            (fun x hx => hpc x (List.mem_cons_of_mem _ hx))
            (fun x hx => hqc x (List.mem_cons_of_mem _ hx))
            (List.cons.inj this.2).2
          rw [this.1, e]

theorem fmtL_inj (p q : List (List Char)) (hp : p ≠ []) (hq : q ≠ [])
    (hpc : ∀ a ∈ p, ',' ∉ a) (hqc : ∀ a ∈ q, ',' ∉ a)
    (h : fmtL p = fmtL q) : p = q := by
  unfold fmtL at h
  have h1 := (List.cons.inj h).2
  exact joinL_inj p q hp hq hpc hqc (List.append_cancel_right h1)

/-- a generated name with at least two parts contains a comma -/
theorem comma_mem_fmtL (p : List (List Char)) (h : 2 ≤ p.length) : ',' ∈ fmtL p := by
  match p, h with
  | a :: b :: r, _ =>
    unfold fmtL
    rw [joinL_cons2]
    simp

/-! ## `parse` -/

theorem splitLastColon_eq (s a b : List Char) (h : splitLastColon s = some (a, b)) :
    s = a ++ ':' :: b := by
  induction s generalizing a b with
  | nil => simp [splitLastColon] at h
  | cons c cs ih =>
    unfold splitLastColon at h
    split at h
    · rename_i a' b' e
      simp only [Option.some.injEq, Prod.mk.injEq] at h
      rw [← h.1, ← h.2, ih a' b' e]
      rfl
    · split at h
      · rename_i hc
        simp only [Option.some.injEq, Prod.mk.injEq] at h
        rw [← h.1, ← h.2, hc]
        rfl
      · simp at h

theorem foldl_none (l : List Char) :
    l.foldl (fun (acc : Option Nat) ch =>
      match acc with
      | some a => if ch.isDigit then some (10 * a + (ch.toNat - 48)) else none
      | none => none) none = none := by
  induction l with
  | nil => rfl
  | cons c l ih => exact ih

theorem foldl_nondigit (l : List Char) (acc : Option Nat) (h : ∃ c ∈ l, c.isDigit = false) :
    l.foldl (fun (acc : Option Nat) ch =>
      match acc with
      | some a => if ch.isDigit then some (10 * a + (ch.toNat - 48)) else none
      | none => none) acc = none := by
  induction l generalizing acc with
  | nil => simp at h
  | cons c l ih =>
    rw [List.foldl_cons]
    by_cases hc : c.isDigit = false
    · cases acc with
      | none => exact foldl_none l
      | some a =>
        simp only [hc]
        exact foldl_none l
    · apply ih
      obtain ⟨d, hd, hd'⟩ := h
      rcases List.mem_cons.1 hd with rfl | hd
      · exact absurd hd' hc
      · exact ⟨d, hd, hd'⟩

theorem natOfChars?_none (cs : List Char) (h : ∃ c ∈ cs, c.isDigit = false) : natOfChars? cs = none := by
  cases cs with
  | nil => rfl
  | cons c cs =>
    unfold natOfChars?
    exact foldl_nondigit _ _ h

theorem toIntL?_none (b : List Char) (h : ')' ∈ b) : toIntL? b = none := by
  unfold toIntL?
  split
  · rename_i cs
    have : ')' ∈ cs := by
      rcases List.mem_cons.1 h with h | h
      · exact absurd h (by decide)
      · exact h
    rw [natOfChars?_none cs ⟨')', this, by decide⟩]
    rfl
  · rw [natOfChars?_none b ⟨')', h, by decide⟩]
    rfl

/-- a generated name ends with ')', so `int()` of what follows its last ':' fails: the particle is (whole name, 0) -/
theorem parse_fmtL (p : List (List Char)) : PtL.parse (fmtL p) = ⟨fmtL p, 0⟩ := by
  unfold PtL.parse
  split
  · rename_i a b e
    have hs := splitLastColon_eq _ _ _ e
    have hmem : ')' ∈ b := by
      have hl : (fmtL p).getLast? = some ')' := by
        show (('(' :: joinL [',', ' '] p) ++ [')']).getLast? = some ')'
        rw [List.getLast?_append]; rfl
      rw [hs, List.getLast?_append] at hl
      cases b with
      | nil =>
        simp [Option.or] at hl
      | cons c b =>
        rw [List.getLast?_cons_cons] at hl
        cases hb : (c :: b).getLast? with
        | none => simp at hb
        | some d =>
          rw [hb] at hl
          have : d = ')' := by simpa using hl
          exact List.mem_of_getLast? (this ▸ hb)
    rw [toIntL?_none b hmem]
  · rfl

end TfPwaV.Topology
