import TfPwaV.Proofs.AxesIndBMkD
import TfPwaV.Proofs.AxesIndBSteps
/-!
Helper lemmas for `Props/C01j.lean`: the TWO daughters of one vertex of `cal_helicity_angle`.

* `vertex_rot_facts`: the rotation-only part of `C02.vertex_facts` — for a daughter with direction `v` the axes
  `(x2, y', z')` handed down are the rotation `Rotation_y(beta)·Rotation_z(alpha)` (the code's angles, range shift included)
  of the mother's axes; NO boost, hence no `beta² > 1e-14` hypothesis (final particles included).
* `opposite_dirs`: if the second daughter flies opposite to the first, its polar representation in the mother's frame has
  `dir' = −dir`, `yNew' = −yNew` — the frame `[x, −y, −z]` of `create_rotate_p_decay`, derived here for the EXTRACTOR.
* `second_daughter_flip`: hence the helicity coordinates of the second daughter are `flipYZ` of those of the first.
* `pair_gamma`: two vertex equations `r'_j·U = Rotation_z(γ_j)·r_j` whose helicity frames are related by `flipYZ` for both
  choices of base axes have `Rotation_z(γ_2) = ±Rotation_z(−γ_1)`.
-/
open TfPwaV.ScalarR
namespace TfPwaV.AxesInd
open TfPwaV.SU2R TfPwaV.AlignR TfPwaV.KinR TfPwaV.AngleR TfPwaV.SL2CR TfPwaV.LorentzSLR TfPwaV.CascadeR TfPwaV.RouteRestR
open TfPwaV.C12 TfPwaV.C02 TfPwaV.C01 TfPwaV.C11

/-- the frame `[x, −y, −z]` on coordinates -/
def flipYZ (p : V4) : V4 := ⟨p.t, p.x, -p.y, -p.z⟩

theorem lor_stepR (α β : ℝ) (p : V4) : lor (stepR α β) p = rotYv β (rotZv α p) := by
  apply herm_inj
  rw [herm_lor, stepR_acts]

/-- **one daughter, rotation only** -/
theorem vertex_rot_facts (X Y Z : V3) (hF : IsFrame X Y Z) (s : ℝ) (hs : eps ≤ s) (x : V3)
    (hx : crossUnit (V3.smul s Z) x = Y) (v : V3) (hg : eps ≤ ((V3.smul s Z).cross v).norm) (bias : ℝ) :
    ∃ P θ φ : ℝ, 0 < P ∧ 0 < θ ∧ θ < Real.pi ∧ v = V3.smul P (dir X Y Z θ φ) ∧
      (angleZxZGetx (V3.smul s Z) x v).x2 = (yNew X Y φ).cross (dir X Y Z θ φ) ∧
      (angleZxZGetx (V3.smul s Z) x v).alpha = φ ∧ (angleZxZGetx (V3.smul s Z) x v).beta = θ ∧
      ∀ q, coords ((yNew X Y φ).cross (dir X Y Z θ φ)) (yNew X Y φ) (dir X Y Z θ φ) q =
        rotYv (angleZxZGetx (V3.smul s Z) x v).beta
          (rotZv (shiftAlpha (angleZxZGetx (V3.smul s Z) x v).alpha bias) (coords X Y Z q)) := by
  have hs0 : 0 < s := lt_of_lt_of_le eps_pos hs
  have hX : crossUnit (V3.smul s Z) X = Y :=
    crossUnit_eq _ X Y s (by rw [cross_smul_left, hF.czx]) (by rw [norm2_eq_dot]; exact hF.yy) hs
  rw [getx_congr _ x X _ (by rw [hx, hX])]
  rw [norm_cross_smul hF s hs0] at hg
  have hρ : 0 < Real.sqrt (X.dot v * X.dot v + Y.dot v * Y.dot v) := by
    by_contra h
    have h' := not_lt.mp h
    have : s * Real.sqrt (X.dot v * X.dot v + Y.dot v * Y.dot v) ≤ 0 :=
      mul_nonpos_of_nonneg_of_nonpos hs0.le h'
    linarith [eps_pos]
  have hxy := Real.sqrt_pos.mp hρ
  obtain ⟨P, θ, φ, hP, hθ0, hθπ, hφ0, hφπ, hv, hPn, hPs⟩ := exists_polar hF v hxy
  have hguard : eps ≤ s * (P * Real.sin θ) := by rw [hPs]; exact hg
  obtain ⟨oa, ob, ox⟩ := angle_step_scaled X Y Z hF s P θ φ hs hP hθ0 hθπ hφ0 hφπ hguard
  rw [← hv] at oa ob ox
  obtain ⟨hcα, hsα⟩ := shiftAlpha_cos_sin φ bias
  refine ⟨P, θ, φ, hP, hθ0, hθπ, hv, ox, oa, ob, fun q => ?_⟩
  rw [ob, oa, coords_new_frame hF θ φ q, rotZv_congr φ _ hcα hsα]

theorem dot_dir {X Y Z : V3} (hF : IsFrame X Y Z) (θ φ : ℝ) :
    X.dot (dir X Y Z θ φ) = Real.sin θ * Real.cos φ ∧ Y.dot (dir X Y Z θ φ) = Real.sin θ * Real.sin φ ∧
      Z.dot (dir X Y Z θ φ) = Real.cos θ := by
  unfold dir
  refine ⟨?_, ?_, ?_⟩
  · simp only [dot_add_right, dot_smul_right, hF.xx, hF.xy, dot_comm X Z, hF.zx]; ring
  · simp only [dot_add_right, dot_smul_right, hF.yy, dot_comm Y X, hF.xy, hF.yz]; ring
  · simp only [dot_add_right, dot_smul_right, hF.zz, hF.zx, dot_comm Z Y, hF.yz]; ring

/-- opposite directions: the polar angle is reflected, the azimuth turned by `π` -/
theorem opposite_angles {X Y Z : V3} (hF : IsFrame X Y Z) (P1 θ1 φ1 P2 θ2 φ2 : ℝ) (hP1 : 0 < P1) (hP2 : 0 < P2)
    (h1 : 0 < θ1) (h1' : θ1 < Real.pi) (h2 : 0 < θ2) (h2' : θ2 < Real.pi)
    (hv : V3.smul P2 (dir X Y Z θ2 φ2) = (V3.smul P1 (dir X Y Z θ1 φ1)).neg) :
    Real.cos θ2 = -Real.cos θ1 ∧ Real.sin θ2 = Real.sin θ1 ∧ Real.cos φ2 = -Real.cos φ1 ∧ Real.sin φ2 = -Real.sin φ1 := by
  obtain ⟨ax, ay, az⟩ := dot_dir hF θ1 φ1
  obtain ⟨bx, b_y, bz⟩ := dot_dir hF θ2 φ2
  have eX := congrArg (fun w => X.dot w) hv
  have eY := congrArg (fun w => Y.dot w) hv
  have eZ := congrArg (fun w => Z.dot w) hv
  simp only [dot_neg_right, dot_smul_right, ax, ay, az, bx, b_y, bz] at eX eY eZ
  have s1 := Real.sin_pos_of_pos_of_lt_pi h1 h1'
  have s2 := Real.sin_pos_of_pos_of_lt_pi h2 h2'
  have q1 := Real.sin_sq_add_cos_sq θ1
  have q2 := Real.sin_sq_add_cos_sq θ2
  have r1 := Real.sin_sq_add_cos_sq φ1
  have r2 := Real.sin_sq_add_cos_sq φ2
  -- equal lengths
  have hPP : P2 * P2 = P1 * P1 := by
    have e : P2 * P2 = (P2 * (Real.sin θ2 * Real.cos φ2)) ^ 2 + (P2 * (Real.sin θ2 * Real.sin φ2)) ^ 2 +
        (P2 * Real.cos θ2) ^ 2 := by
      linear_combination (-(P2 ^ 2 * Real.sin θ2 ^ 2)) * r2 - P2 ^ 2 * q2
    have e' : P1 * P1 = (P1 * (Real.sin θ1 * Real.cos φ1)) ^ 2 + (P1 * (Real.sin θ1 * Real.sin φ1)) ^ 2 +
        (P1 * Real.cos θ1) ^ 2 := by
      linear_combination (-(P1 ^ 2 * Real.sin θ1 ^ 2)) * r1 - P1 ^ 2 * q1
    rw [e, e', eX, eY, eZ]; ring
  have hP : P2 = P1 := by nlinarith
  subst hP
  have hc : Real.cos θ2 = -Real.cos θ1 := by
    have := mul_left_cancel₀ hP1.ne' (show P2 * Real.cos θ2 = P2 * (-Real.cos θ1) by linarith)
    exact this
  have hs : Real.sin θ2 = Real.sin θ1 := by
    have h0 : (Real.sin θ2 - Real.sin θ1) * (Real.sin θ2 + Real.sin θ1) = 0 := by
      rw [hc] at q2; nlinarith
    rcases mul_eq_zero.mp h0 with h | h
    · linarith
    · linarith
  rw [hs] at eX eY
  have hcφ : Real.cos φ2 = -Real.cos φ1 := by
    have h := mul_left_cancel₀ (mul_pos hP1 s1).ne'
      (show P2 * Real.sin θ1 * Real.cos φ2 = P2 * Real.sin θ1 * (-Real.cos φ1) by linarith)
    exact h
  have hsφ : Real.sin φ2 = -Real.sin φ1 := by
    have h := mul_left_cancel₀ (mul_pos hP1 s1).ne'
      (show P2 * Real.sin θ1 * Real.sin φ2 = P2 * Real.sin θ1 * (-Real.sin φ1) by linarith)
    exact h
  exact ⟨hc, hs, hcφ, hsφ⟩

/-- opposite directions have `dir' = −dir` and `yNew' = −yNew` -/
theorem opposite_dirs {X Y Z : V3} (hF : IsFrame X Y Z) (P1 θ1 φ1 P2 θ2 φ2 : ℝ) (hP1 : 0 < P1) (hP2 : 0 < P2)
    (h1 : 0 < θ1) (h1' : θ1 < Real.pi) (h2 : 0 < θ2) (h2' : θ2 < Real.pi)
    (hv : V3.smul P2 (dir X Y Z θ2 φ2) = (V3.smul P1 (dir X Y Z θ1 φ1)).neg) :
    dir X Y Z θ2 φ2 = (dir X Y Z θ1 φ1).neg ∧ yNew X Y φ2 = (yNew X Y φ1).neg := by
  obtain ⟨hc, hs, hcφ, hsφ⟩ := opposite_angles hF P1 θ1 φ1 P2 θ2 φ2 hP1 hP2 h1 h1' h2 h2' hv
  constructor
  · unfold dir
    rw [hc, hs, hcφ, hsφ]
    ext <;> simp only [V3.smul, V3.add, V3.neg] <;> ring
  · unfold yNew
    rw [hcφ, hsφ]
    ext <;> simp only [V3.smul, V3.add, V3.neg] <;> ring

theorem coords_flip (A B C : V3) (q : V4) : coords A B.neg C.neg q = flipYZ (coords A B C q) := by
  ext <;> simp only [coords, flipYZ, dot_neg_left]

/-- **both daughters of one vertex**: if the second daughter's direction is opposite to the first one's, there is ONE
orthonormal frame `(A, B, C)` (the first daughter's helicity axes) such that the code's angles of the first daughter rotate the
mother's coordinates into `(A, B, C)`-coordinates and the code's angles of the second daughter rotate them into
`(A, −B, −C)`-coordinates.  Hypotheses: the two `cross_unit` guards. -/
theorem second_daughter_flip (X Y Z : V3) (hF : IsFrame X Y Z) (s : ℝ) (hs : eps ≤ s) (x : V3)
    (hx : crossUnit (V3.smul s Z) x = Y) (v : V3) (hg : eps ≤ ((V3.smul s Z).cross v).norm)
    (hg2 : eps ≤ ((V3.smul s Z).cross v.neg).norm) (bias1 bias2 : ℝ) :
    ∃ A B C : V3, IsFrame A B C ∧
      (∀ q, coords A B C q = rotYv (angleZxZGetx (V3.smul s Z) x v).beta
        (rotZv (shiftAlpha (angleZxZGetx (V3.smul s Z) x v).alpha bias1) (coords X Y Z q))) ∧
      (∀ q, flipYZ (coords A B C q) = rotYv (angleZxZGetx (V3.smul s Z) x v.neg).beta
        (rotZv (shiftAlpha (angleZxZGetx (V3.smul s Z) x v.neg).alpha bias2) (coords X Y Z q))) := by
  obtain ⟨P1, θ1, φ1, hP1, h1, h1', hv1, _, _, _, hc1⟩ := vertex_rot_facts X Y Z hF s hs x hx v hg bias1
  obtain ⟨P2, θ2, φ2, hP2, h2, h2', hv2, _, _, _, hc2⟩ := vertex_rot_facts X Y Z hF s hs x hx v.neg hg2 bias2
  have hv : V3.smul P2 (dir X Y Z θ2 φ2) = (V3.smul P1 (dir X Y Z θ1 φ1)).neg := by rw [← hv2, ← hv1]
  obtain ⟨hd, hy⟩ := opposite_dirs hF P1 θ1 φ1 P2 θ2 φ2 hP1 hP2 h1 h1' h2 h2' hv
  refine ⟨_, _, _, frame_first hF θ1 φ1, hc1, fun q => ?_⟩
  rw [← hc2 q, hd, hy, cross_neg_left, cross_neg_right, ← coords_flip]
  congr 1
  ext <;> simp [V3.neg]

theorem rotZv_ex (γ : ℝ) : rotZv γ ⟨0, 1, 0, 0⟩ = ⟨0, Real.cos γ, -Real.sin γ, 0⟩ := by
  ext <;> simp [rotZv, kcos, ksin]

/-- **the two third angles of one vertex are opposite** (up to the sheet) -/
theorem pair_gamma (U : M2) (α1 β1 α2 β2 α1' β1' α2' β2' γ1 γ2 : ℝ)
    (X Y Z X' Y' Z' A B C A' B' C' : V3) (hch : FrameChange U X Y Z X' Y' Z') (hFd : IsFrame A B C)
    (h1 : ∀ q, coords A B C q = rotYv β1 (rotZv α1 (coords X Y Z q)))
    (h2 : ∀ q, flipYZ (coords A B C q) = rotYv β2 (rotZv α2 (coords X Y Z q)))
    (h1' : ∀ q, coords A' B' C' q = rotYv β1' (rotZv α1' (coords X' Y' Z' q)))
    (h2' : ∀ q, flipYZ (coords A' B' C' q) = rotYv β2' (rotZv α2' (coords X' Y' Z' q)))
    (e1 : (stepR α1' β1').mul U = (rotZ γ1).mul (stepR α1 β1))
    (e2 : (stepR α2' β2').mul U = (rotZ γ2).mul (stepR α2 β2)) :
    rotZ γ2 = rotZ (-γ1) ∨ rotZ γ2 = negOne.mul (rotZ (-γ1)) := by
  let q : V4 := ⟨0, A.x, A.y, A.z⟩
  have hq : coords A B C q = ⟨0, 1, 0, 0⟩ := by
    have hxx := hFd.xx
    have hxy := hFd.xy
    have hzx := hFd.zx
    ext <;> simp only [coords, q, V4.vect]
    · exact hxx
    · rw [dot_comm]; exact hxy
    · exact hzx
  have E1 : coords A' B' C' q = rotZv γ1 (coords A B C q) := by
    have := congrArg (fun m => lor m (coords X Y Z q)) e1
    simp only [lor_mul, lor_stepR, ← hch q, ← rotZv_eq_lor] at this
    rw [h1', h1]; exact this
  have E2 : flipYZ (coords A' B' C' q) = rotZv γ2 (flipYZ (coords A B C q)) := by
    have := congrArg (fun m => lor m (coords X Y Z q)) e2
    simp only [lor_mul, lor_stepR, ← hch q, ← rotZv_eq_lor] at this
    rw [h2', h2]; exact this
  rw [E1, hq, rotZv_ex] at E2
  have e : flipYZ ⟨0, 1, 0, 0⟩ = (⟨0, 1, 0, 0⟩ : V4) := by ext <;> simp [flipYZ]
  rw [e, rotZv_ex] at E2
  have hc := congrArg V4.x E2
  have hs := congrArg V4.y E2
  simp only [flipYZ] at hc hs
  apply rotZ_of_cos_sin
  · rw [Real.cos_neg]; exact hc.symm
  · rw [Real.sin_neg]; linarith

/-- … as a statement about the product -/
theorem pair_gamma_prod (γ1 γ2 : ℝ) (h : rotZ γ2 = rotZ (-γ1) ∨ rotZ γ2 = negOne.mul (rotZ (-γ1))) :
    (rotZ γ1).mul (rotZ γ2) = M2.one ∨ (rotZ γ1).mul (rotZ γ2) = negOne := by
  have hz : (rotZ γ1).mul (rotZ (-γ1)) = M2.one := by
    rw [← rotZ_add, add_neg_cancel, rotZ_zero]
  rcases h with h | h
  · left; rw [h, hz]
  · right; rw [h, negOne_comm, ← su2_mul_assoc, hz, M2.one_mul]

/-! ### the exact relation: `alpha_2 = alpha_1 − π`, `beta_2 = π − beta_1` (the role of the biases `−π`, `−2π`) -/

theorem shiftAlpha_range (a bias : ℝ) : bias ≤ shiftAlpha a bias ∧ shiftAlpha a bias < bias + 2 * Real.pi := by
  have hy : (0 : ℝ) < 2 * Real.pi := by positivity
  have h1 := Int.floor_le ((a - bias) / (2 * Real.pi))
  have h2 := Int.lt_floor_add_one ((a - bias) / (2 * Real.pi))
  rw [le_div_iff₀ hy] at h1
  rw [div_lt_iff₀ hy] at h2
  unfold shiftAlpha kmod kfloor kpi
  constructor <;> nlinarith

/-- azimuths that differ by `π` (mod `2π`), shifted into `[−π, π)` and `[−2π, 0)`, differ by `π` EXACTLY -/
theorem alpha_second_exact (φ1 φ2 : ℝ) (hc : Real.cos φ2 = -Real.cos φ1) (hs : Real.sin φ2 = -Real.sin φ1) :
    shiftAlpha φ2 (-kpi - kpi) = shiftAlpha φ1 (-kpi) - Real.pi := by
  obtain ⟨c1, s1⟩ := shiftAlpha_cos_sin φ1 (-kpi)
  obtain ⟨c2, s2⟩ := shiftAlpha_cos_sin φ2 (-kpi - kpi)
  obtain ⟨l1, u1⟩ := shiftAlpha_range φ1 (-kpi)
  obtain ⟨l2, u2⟩ := shiftAlpha_range φ2 (-kpi - kpi)
  set A1 := shiftAlpha φ1 (-kpi)
  set A2 := shiftAlpha φ2 (-kpi - kpi)
  have l1' : -Real.pi ≤ A1 := l1
  have u1' : A1 < -Real.pi + 2 * Real.pi := u1
  have l2' : -Real.pi - Real.pi ≤ A2 := l2
  have u2' : A2 < -Real.pi - Real.pi + 2 * Real.pi := u2
  have hcos : Real.cos (A2 - (A1 - Real.pi)) = 1 := by
    rw [Real.cos_sub, Real.cos_sub, Real.sin_sub, Real.cos_pi, Real.sin_pi, c1, s1, c2, s2, hc, hs]
    have := Real.sin_sq_add_cos_sq φ1
    nlinarith
  obtain ⟨n, hn⟩ := (Real.cos_eq_one_iff _).mp hcos
  have hn0 : n = 0 := by
    have hpi := Real.pi_pos
    have hlt : (n : ℝ) * (2 * Real.pi) < 1 * (2 * Real.pi) := by rw [hn]; linarith
    have hgt : (-1 : ℝ) * (2 * Real.pi) < (n : ℝ) * (2 * Real.pi) := by rw [hn]; linarith
    have h1 : (n : ℝ) < 1 := lt_of_mul_lt_mul_right hlt (by positivity)
    have h2 : (-1 : ℝ) < (n : ℝ) := lt_of_mul_lt_mul_right hgt (by positivity)
    have h1' : n < 1 := by exact_mod_cast h1
    have h2' : -1 < n := by exact_mod_cast h2
    omega
  rw [hn0] at hn
  simp at hn
  linarith

/-- **both daughters of one vertex, exactly**: `beta_2 = π − beta_1` and (with the code's biases) `alpha_2 = alpha_1 − π` -/
theorem second_daughter_exact (X Y Z : V3) (hF : IsFrame X Y Z) (s : ℝ) (hs : eps ≤ s) (x : V3)
    (hx : crossUnit (V3.smul s Z) x = Y) (v : V3) (hg : eps ≤ ((V3.smul s Z).cross v).norm)
    (hg2 : eps ≤ ((V3.smul s Z).cross v.neg).norm) :
    (angleZxZGetx (V3.smul s Z) x v.neg).beta = Real.pi - (angleZxZGetx (V3.smul s Z) x v).beta ∧
      shiftAlpha (angleZxZGetx (V3.smul s Z) x v.neg).alpha (-kpi - kpi) =
        shiftAlpha (angleZxZGetx (V3.smul s Z) x v).alpha (-kpi) - Real.pi := by
  obtain ⟨P1, θ1, φ1, hP1, h1, h1', hv1, _, oa1, ob1, _⟩ := vertex_rot_facts X Y Z hF s hs x hx v hg 0
  obtain ⟨P2, θ2, φ2, hP2, h2, h2', hv2, _, oa2, ob2, _⟩ := vertex_rot_facts X Y Z hF s hs x hx v.neg hg2 0
  have hv : V3.smul P2 (dir X Y Z θ2 φ2) = (V3.smul P1 (dir X Y Z θ1 φ1)).neg := by rw [← hv2, ← hv1]
  obtain ⟨hc, _, hcφ, hsφ⟩ := opposite_angles hF P1 θ1 φ1 P2 θ2 φ2 hP1 hP2 h1 h1' h2 h2' hv
  rw [oa1, oa2, ob1, ob2]
  refine ⟨?_, alpha_second_exact φ1 φ2 hcφ hsφ⟩
  apply Real.injOn_cos ⟨h2.le, h2'.le⟩ ⟨by linarith, by linarith⟩
  rw [Real.cos_pi_sub, hc]

/-- the fixed element `Rotation_y(π)·Rotation_z(−π)` relating the two daughters' passive vertex rotations -/
def Qc : M2 := ⟨Cx.zero, ⟨0, 1⟩, ⟨0, 1⟩, Cx.zero⟩

theorem stepR_second (α β : ℝ) : stepR (α - Real.pi) (Real.pi - β) = Qc.mul (stepR α β) := by
  have e1 : (Real.pi - β) / 2 = Real.pi / 2 - β / 2 := by ring
  have e2 : (α - Real.pi) / 2 = α / 2 - Real.pi / 2 := by ring
  unfold stepR
  simp only [rotZ_eq]
  unfold rotY ksin kcos
  rw [e1, e2, Real.cos_sub, Real.sin_sub, Real.cos_sub, Real.sin_sub, Real.cos_pi_div_two, Real.sin_pi_div_two]
  ext <;> simp [M2.mul, Cx.mul, Cx.add, Cx.neg, Cx.zero, Qc]

theorem rotZ_conj_Qc (γ1 γ2 : ℝ) (h : (rotZ γ2).mul Qc = Qc.mul (rotZ γ1)) : rotZ γ2 = rotZ (-γ1) := by
  rw [rotZ_eq, rotZ_eq] at h
  have h1 := congrArg (fun m : M2 => m.x01.re) h
  have h2 := congrArg (fun m : M2 => m.x01.im) h
  simp [M2.mul, Cx.mul, Cx.add, Cx.zero, Qc] at h1 h2
  have e : -γ1 / 2 = -(γ1 / 2) := by ring
  rw [rotZ_eq, rotZ_eq, e, Real.cos_neg, Real.sin_neg, h2]
  ext <;> simp [Cx.zero] <;> linarith

/-- **the two third angles of one vertex are opposite, EXACTLY in SU(2)** -/
theorem pair_gamma_exact (U s1 s1' s2 s2' : M2) (hs1 : IsSU2 s1) (γ1 γ2 : ℝ)
    (q : s2 = Qc.mul s1) (q' : s2' = Qc.mul s1')
    (e1 : s1'.mul U = (rotZ γ1).mul s1) (e2 : s2'.mul U = (rotZ γ2).mul s2) : rotZ γ2 = rotZ (-γ1) := by
  apply rotZ_conj_Qc
  have key : ((rotZ γ2).mul Qc).mul s1 = (Qc.mul (rotZ γ1)).mul s1 := by
    rw [su2_mul_assoc, ← q, ← e2, q', su2_mul_assoc, e1, su2_mul_assoc]
  have := congrArg (fun m : M2 => m.mul s1.inv) key
  simp only [su2_mul_assoc, (su2_inv s1 (isSU2_det s1 hs1)).2, M2.mul_one] at this
  exact this

end TfPwaV.AxesInd
