import TfPwaV.Proofs.EinsumStep

/-! C05 (einsum): the strict ranking of the fixed `ordered_indices` never ties, whatever the double comparisons do. -/
namespace TfPwaV.Einsum

theorem perm_insertE (x : Idx × Float) : ∀ l, (insertE x l).Perm (x :: l)
  | [] => by simp [insertE]
  | y :: ys => by
    simp only [insertE]
    split_ifs
    · exact List.Perm.refl _
    · exact ((perm_insertE x ys).cons y).trans (List.Perm.swap x y ys)

theorem perm_sortE : ∀ l, (sortE l).Perm l
  | [] => by simp [sortE]
  | x :: xs => by
    have ih := perm_sortE xs
    simp only [sortE, List.foldr_cons] at ih ⊢
    exact (perm_insertE x _).trans (ih.cons x)

theorem idxOf_inj (l : List Idx) (a b : Idx) (ha : a ∈ l) (hb : b ∈ l) (h : l.idxOf a = l.idxOf b) : a = b := by
  have h1 := List.getElem_idxOf (List.idxOf_lt_length_iff.mpr ha)
  have h2 := List.getElem_idxOf (List.idxOf_lt_length_iff.mpr hb)
  rw [← h1, ← h2]
  simp [h]

/-- the ranking of the fixed `ordered_indices` is injective on the labels it ranks -/
theorem rankFixed_inj (ord : List (Idx × Float)) (a b : Idx) (ha : a ∈ ord.map (·.1)) (hb : b ∈ ord.map (·.1))
    (h : rankFixed ord a = rankFixed ord b) : a = b := by
  have hp : ((sortE ord).map (·.1)).Perm (ord.map (·.1)) := (perm_sortE ord).map _
  exact idxOf_inj _ a b (hp.mem_iff.mpr ha) (hp.mem_iff.mpr hb) h

theorem hasDup_false_of_nodup : ∀ l : List Nat, l.Nodup → hasDup l = false
  | [], _ => by simp [hasDup, dedup]
  | x :: xs, h => by
    have h' := List.nodup_cons.mp h
    have ih := hasDup_false_of_nodup xs h'.2
    simp only [hasDup, bne_eq_false_iff_eq] at ih ⊢
    have hc : ¬ x ∈ dedup xs := by
      rw [mem_dedup]
      exact h'.1
    simp [dedup, hc, ih]

theorem nodup_map_of_inj (key : Idx → Nat) : ∀ l : List Idx, l.Nodup → InjOnList key l → (l.map key).Nodup
  | [], _, _ => by simp
  | x :: xs, h, hinj => by
    have h' := List.nodup_cons.mp h
    simp only [List.map_cons, List.nodup_cons, List.mem_map, not_exists, not_and]
    refine ⟨?_, nodup_map_of_inj key xs h'.2
      (fun a ha b hb => hinj a (List.mem_cons_of_mem _ ha) b (List.mem_cons_of_mem _ hb))⟩
    intro y hy hxy
    have := hinj y (List.mem_cons_of_mem _ hy) x (List.mem_cons_self) hxy
    subst this
    exact h'.1 hy

/-- with the fixed ranking the tie guard of a step never fires -/
theorem keysDistinct_rankFixed (ord : List (Idx × Float)) (labels : List Idx) (hnd : labels.Nodup)
    (hsub : ∀ l ∈ labels, l ∈ ord.map (·.1)) : keysDistinct (rankFixed ord) labels = true := by
  unfold keysDistinct
  rw [hasDup_false_of_nodup _ (nodup_map_of_inj _ labels hnd
    (fun a ha b hb h => rankFixed_inj ord a b (hsub a ha) (hsub b hb) h))]
  rfl

end TfPwaV.Einsum
