import TfPwaV.Model.LS
/-!
# Counting lemmas for C13 (number of (l,s) couplings = number of helicity amplitudes), all spins

Core Lean only.  `cnt p n` = #{i < n | p i}, `sumR f n` = Σ_{i<n} f i.  The two sides of the count clause are brought
to these forms (`helCount_eq`, `lsList_len`), both satisfy the same recurrence under (jb, jc) ↦ (jb+1, jc+1)
(`helCount_step`, `lsList_len_step`: the difference |jb−jc| is unchanged, one more value of s = jb+jc+2 on the coupling
side, one more row and one more column of the helicity grid on the other side), and the base cases jb = 0 / jc = 0
are single arithmetic progressions (`cnt_interval`).
-/
namespace TfPwaV.LSCount
open TfPwaV.LS

/-- number of `i < n` with `p i` -/
def cnt (p : Nat → Bool) (n : Nat) : Nat := ((List.range n).filter p).length

/-- `Σ_{i<n} f i` -/
def sumR (f : Nat → Nat) (n : Nat) : Nat := ((List.range n).map f).sum

theorem cnt_zero (p : Nat → Bool) : cnt p 0 = 0 := rfl

theorem cnt_succ (p : Nat → Bool) (n : Nat) : cnt p (n + 1) = cnt p n + (if p n then 1 else 0) := by
  unfold cnt
  rw [List.range_succ, List.filter_append, List.length_append]
  cases h : p n <;> simp [List.filter, h]

theorem cnt_congr {p q : Nat → Bool} {n : Nat} (h : ∀ i, i < n → p i = q i) : cnt p n = cnt q n := by
  unfold cnt
  rw [List.filter_congr]
  intro x hx
  exact h x (List.mem_range.1 hx)

theorem sumR_zero (f : Nat → Nat) : sumR f 0 = 0 := rfl

theorem sumR_succ (f : Nat → Nat) (n : Nat) : sumR f (n + 1) = sumR f n + f n := by
  unfold sumR
  rw [List.range_succ, List.map_append, List.sum_append]
  simp

theorem sumR_congr {f g : Nat → Nat} {n : Nat} (h : ∀ i, i < n → f i = g i) : sumR f n = sumR g n := by
  unfold sumR
  congr 1
  apply List.map_congr_left
  intro x hx
  exact h x (List.mem_range.1 hx)

/-- exchanging the order of counting on a rectangle, one column at a time -/
theorem sumR_cnt_succ (p : Nat → Nat → Bool) (m n : Nat) :
    sumR (fun i => cnt (p i) (m + 1)) n = sumR (fun i => cnt (p i) m) n + cnt (fun i => p i m) n := by
  induction n with
  | zero => rfl
  | succ n ih =>
    rw [sumR_succ, sumR_succ, cnt_succ, cnt_succ, ih]
    omega

theorem cnt_true (n : Nat) : cnt (fun _ => true) n = n := by
  induction n with
  | zero => rfl
  | succ n ih => rw [cnt_succ, ih]; rfl

/-- closed form of the number of `i < n` with `lo ≤ 2 i ≤ hi` -/
theorem cnt_interval (lo hi : Int) (n : Nat) :
    ((cnt (fun i => decide (lo ≤ 2 * (i : Int) ∧ 2 * (i : Int) ≤ hi)) n : Nat) : Int)
      = max 0 (min ((n : Int) - 1) (hi / 2) - max 0 ((lo + 1) / 2) + 1) := by
  induction n with
  | zero => rw [cnt_zero]; omega
  | succ n ih =>
    rw [cnt_succ]
    push_cast
    rw [ih]
    split
    · rename_i h
      simp only [decide_eq_true_eq] at h
      omega
    · rename_i h
      simp only [decide_eq_true_eq] at h
      omega

/-- closed form of the number of `i < n` with `(a + i) % 2 = d` -/
theorem cnt_parity (a d n : Nat) (hd : d < 2) :
    cnt (fun i => (a + i) % 2 == d) n = if a % 2 = d then (n + 1) / 2 else n / 2 := by
  induction n with
  | zero => rw [cnt_zero]; split <;> rfl
  | succ n ih =>
    rw [cnt_succ, ih]
    split <;> split <;> rename_i h1 h2 <;> simp only [beq_iff_eq] at h2 <;> omega

/-! ## the helicity side -/

/-- the predicate of `helCount`: `|λb − λc| ≤ ja` for λb = ib − jb/2, λc = ic − jc/2 (all doubled) -/
def hp (ja jb jc ib ic : Nat) : Bool :=
  decide ((2 * (ib : Int) - (jb : Int)) - (2 * (ic : Int) - (jc : Int)) ≤ (ja : Int) ∧
    -(ja : Int) ≤ (2 * (ib : Int) - (jb : Int)) - (2 * (ic : Int) - (jc : Int)))

theorem helCount_eq (ja jb jc : Nat) :
    helCount ja jb jc = sumR (fun ib => cnt (hp ja jb jc ib) (jc + 1)) (jb + 1) := by
  unfold helCount sumR cnt
  rw [List.length_flatMap]
  rfl

theorem hp_shift (ja jb jc ib : Nat) : hp ja (jb + 1) (jc + 1) ib = hp ja jb jc ib := by
  funext ic
  unfold hp
  apply decide_eq_decide.2
  omega

/-- one more row and one more column of the helicity grid -/
theorem helCount_step (ja jb jc : Nat) :
    helCount ja (jb + 1) (jc + 1) = helCount ja jb jc
      + cnt (fun ib => hp ja jb jc ib (jc + 1)) (jb + 1) + cnt (hp ja jb jc (jb + 1)) (jc + 2) := by
  rw [helCount_eq, helCount_eq, sumR_succ]
  simp only [hp_shift]
  rw [sumR_cnt_succ]

/-- the new column and the new row together: the values λb − λc = −(jb+jc+2), …, jb+jc+2, each once -/
theorem helCount_border (ja jb jc : Nat) (h : (ja + jb + jc) % 2 = 0) :
    cnt (fun ib => hp ja jb jc ib (jc + 1)) (jb + 1) + cnt (hp ja jb jc (jb + 1)) (jc + 2)
      = min ja (jb + jc + 2) + 1 := by
  have e1 : cnt (fun ib => hp ja jb jc ib (jc + 1)) (jb + 1)
      = cnt (fun i => decide (((jb : Int) + jc + 2 - ja) ≤ 2 * (i : Int) ∧ 2 * (i : Int) ≤ ((jb : Int) + jc + 2 + ja))) (jb + 1) := by
    apply cnt_congr
    intro i _
    unfold hp
    apply decide_eq_decide.2
    omega
  have e2 : cnt (hp ja jb jc (jb + 1)) (jc + 2)
      = cnt (fun i => decide (((jb : Int) + jc + 2 - ja) ≤ 2 * (i : Int) ∧ 2 * (i : Int) ≤ ((jb : Int) + jc + 2 + ja))) (jc + 2) := by
    apply cnt_congr
    intro i _
    unfold hp
    apply decide_eq_decide.2
    omega
  have c1 := cnt_interval ((jb : Int) + jc + 2 - ja) ((jb : Int) + jc + 2 + ja) (jb + 1)
  have c2 := cnt_interval ((jb : Int) + jc + 2 - ja) ((jb : Int) + jc + 2 + ja) (jc + 2)
  rw [e1, e2]
  omega

theorem helCount_zero_left (ja jc : Nat) (h : (ja + jc) % 2 = 0) : helCount ja 0 jc = min ja jc + 1 := by
  rw [helCount_eq, sumR_succ, sumR_zero]
  have e : cnt (hp ja 0 jc 0) (jc + 1)
      = cnt (fun i => decide (((jc : Int) - ja) ≤ 2 * (i : Int) ∧ 2 * (i : Int) ≤ ((jc : Int) + ja))) (jc + 1) := by
    apply cnt_congr
    intro i _
    unfold hp
    apply decide_eq_decide.2
    omega
  have c := cnt_interval ((jc : Int) - ja) ((jc : Int) + ja) (jc + 1)
  rw [e]
  omega

theorem helCount_zero_right (ja jb : Nat) (h : (ja + jb) % 2 = 0) : helCount ja jb 0 = min ja jb + 1 := by
  rw [helCount_eq]
  have e : sumR (fun ib => cnt (hp ja jb 0 ib) (0 + 1)) (jb + 1)
      = cnt (fun i => decide (((jb : Int) - ja) ≤ 2 * (i : Int) ∧ 2 * (i : Int) ≤ ((jb : Int) + ja))) (jb + 1) := by
    rw [sumR_cnt_succ]
    have : sumR (fun i => cnt (hp ja jb 0 i) 0) (jb + 1) = 0 := by
      generalize jb + 1 = n
      induction n with
      | zero => rfl
      | succ n ih => rw [sumR_succ, ih]; rfl
    rw [this, Nat.zero_add]
    apply cnt_congr
    intro i _
    unfold hp
    apply decide_eq_decide.2
    omega
  have c := cnt_interval ((jb : Int) - ja) ((jb : Int) + ja) (jb + 1)
  rw [e]
  omega

/-! ## the coupling side -/

theorem absDiff_eq (a b : Nat) : absDiff a b = max a b - min a b := by
  unfold absDiff; split <;> omega

theorem length_filterMap_ite {α β : Type} (c : α → Bool) (f : α → β) (l : List α) :
    (l.filterMap fun x => if c x then some (f x) else none).length = (l.filter c).length := by
  induction l with
  | nil => rfl
  | cons x l ih =>
    simp only [List.filterMap_cons, List.filter_cons]
    cases h : c x <;> simp [ih]

theorem length_filter_map_range {α : Type} (c : α → Bool) (g : Nat → α) (n : Nat) :
    (((List.range n).map g).filter c).length = cnt (fun i => c (g i)) n := by
  unfold cnt
  rw [List.filter_map, List.length_map]
  rfl

/-- number of `l` offered for one value of `s` (when `ja + s` is integral) -/
theorem lsInner_len (ja : Nat) (pa pb pc : Option Int) (pBreak : Bool) (ca : Option Int) (s2 : Nat)
    (h : (ja + s2) % 2 = 0) :
    (lsInner ja pa pb pc pBreak ca s2).length
      = cnt (fun i => caOk ca ((absDiff ja s2 + 2 * i) / 2) s2 && pOk pa pb pc pBreak ((absDiff ja s2 + 2 * i) / 2))
          (min ja s2 + 1) := by
  unfold lsInner
  rw [if_neg (by omega)]
  rw [length_filterMap_ite (fun l2 => caOk ca (l2 / 2) s2 && pOk pa pb pc pBreak (l2 / 2)) (fun l2 => (l2 / 2, s2))]
  unfold spinRange
  rw [length_filter_map_range]
  have : (ja + s2 + 2 - absDiff ja s2) / 2 = min ja s2 + 1 := by
    rw [absDiff_eq]; omega
  rw [this]

theorem lsList_len (ja jb jc : Nat) (pa pb pc : Option Int) (pBreak : Bool) (ca : Option Int) :
    (lsList ja jb jc pa pb pc pBreak ca).length
      = sumR (fun i => (lsInner ja pa pb pc pBreak ca (absDiff jb jc + 2 * i)).length) (min jb jc + 1) := by
  unfold lsList spinRange sumR
  rw [List.length_flatMap, List.map_map]
  have : (jb + jc + 2 - absDiff jb jc) / 2 = min jb jc + 1 := by
    rw [absDiff_eq]; omega
  rw [this]
  rfl

/-- one more value of `s` -/
theorem lsList_len_step (ja jb jc : Nat) (pa pb pc : Option Int) (pBreak : Bool) (ca : Option Int) :
    (lsList ja (jb + 1) (jc + 1) pa pb pc pBreak ca).length
      = (lsList ja jb jc pa pb pc pBreak ca).length + (lsInner ja pa pb pc pBreak ca (jb + jc + 2)).length := by
  rw [lsList_len, lsList_len]
  have e1 : min (jb + 1) (jc + 1) + 1 = (min jb jc + 1) + 1 := by omega
  have e2 : absDiff (jb + 1) (jc + 1) = absDiff jb jc := by rw [absDiff_eq, absDiff_eq]; omega
  have e3 : absDiff jb jc + 2 * (min jb jc + 1) = jb + jc + 2 := by rw [absDiff_eq]; omega
  rw [e1, sumR_succ, e2, e3]

theorem lsList_zero_left (ja jc : Nat) (pa pb pc : Option Int) (pBreak : Bool) (ca : Option Int) :
    (lsList ja 0 jc pa pb pc pBreak ca).length = (lsInner ja pa pb pc pBreak ca jc).length := by
  rw [lsList_len]
  have e1 : min 0 jc + 1 = 0 + 1 := by omega
  have e3 : absDiff 0 jc + 2 * 0 = jc := by rw [absDiff_eq]; omega
  rw [e1, sumR_succ, sumR_zero, e3, Nat.zero_add]

theorem lsList_zero_right (ja jb : Nat) (pa pb pc : Option Int) (pBreak : Bool) (ca : Option Int) :
    (lsList ja jb 0 pa pb pc pBreak ca).length = (lsInner ja pa pb pc pBreak ca jb).length := by
  rw [lsList_len]
  have e1 : min jb 0 + 1 = 0 + 1 := by omega
  have e3 : absDiff jb 0 + 2 * 0 = jb := by rw [absDiff_eq]; omega
  rw [e1, sumR_succ, sumR_zero, e3, Nat.zero_add]

/-- parity not used, no C-parity: every `l` of the range is offered -/
theorem lsInner_len_broken (ja : Nat) (pa pb pc : Option Int) (pBreak : Bool) (s2 : Nat)
    (h : (ja + s2) % 2 = 0) (hb : effBreak pa pb pc pBreak = true) :
    (lsInner ja pa pb pc pBreak none s2).length = min ja s2 + 1 := by
  rw [lsInner_len _ _ _ _ _ _ _ h]
  have : cnt (fun i => caOk none ((absDiff ja s2 + 2 * i) / 2) s2 && pOk pa pb pc pBreak ((absDiff ja s2 + 2 * i) / 2))
      (min ja s2 + 1) = cnt (fun _ => true) (min ja s2 + 1) := by
    apply cnt_congr
    intro i _
    simp [caOk, pOk, hb]
  rw [this, cnt_true]

/-- **count clause, parity violated / unknown, no C-parity, all spins** -/
theorem count_broken (ja : Nat) (pa pb pc : Option Int) (pBreak : Bool)
    (hb : effBreak pa pb pc pBreak = true) :
    ∀ jb jc : Nat, (ja + jb + jc) % 2 = 0 →
      (lsList ja jb jc pa pb pc pBreak none).length = helCount ja jb jc
  | 0, jc, h => by
    rw [lsList_zero_left, lsInner_len_broken _ _ _ _ _ _ (by omega) hb, helCount_zero_left _ _ (by omega)]
  | jb + 1, 0, h => by
    rw [lsList_zero_right, lsInner_len_broken _ _ _ _ _ _ (by omega) hb, helCount_zero_right _ _ (by omega)]
  | jb + 1, jc + 1, h => by
    have ih := count_broken ja pa pb pc pBreak hb jb jc (by omega)
    have hbd := helCount_border ja jb jc (by omega)
    rw [lsList_len_step, ih, helCount_step, lsInner_len_broken _ _ _ _ _ _ (by omega) hb]
    omega

end TfPwaV.LSCount
