import TfPwaV.Model.Wigner
/-! Kernel-evaluated exact Clebsch–Gordan orthonormality (rational form, see `Wigner.orthoCheck`), block G of the 2j ≤ 8 grid. -/
namespace TfPwaV.Wigner
theorem ortho_block_G : ([8].all fun j1 => [6, 7, 8].all fun j2 => orthoCheck j1 j2) = true := by decide +kernel
end TfPwaV.Wigner
