import TfPwaV.Proofs.TopologyStd
import TfPwaV.Proofs.TopologySameId
import TfPwaV.Proofs.TopologyNames
import TfPwaV.Props.C14b
/-! C14d: (a) the structured names (`List Char`) satisfy `StdNaming` under the explicit well-formedness predicate
`NameWF`; (b) `topology_map` between two chains of equal `topology_id(identical=False)` is a tree morphism;
(c) `get_chains_map` for every group of binary-tree chains. -/
set_option linter.unusedSectionVars false
namespace TfPwaV.Topology

/-! ## (a) names -/

/-- well-formedness of the name of one particle: `str(p)` contains no ',' and `BaseParticle(str(p)) == p`
(violated e.g. by `BaseParticle("a:1:0")`, whose `str` is "a:1") -/
def NameWF (p : PtL) : Prop := ',' ∉ p.repr ∧ PtL.parse p.repr = p

theorem PtL.wf_iff (p : PtL) : p.wf = true ↔ NameWF p := by
  simp [PtL.wf, NameWF, List.contains_eq_mem]

/-- ★ under `NameWF` for the top and the final particles, the name operations of `standard_topology`
(`str`, `"({})".format(", ".join(..))`, `BaseParticle(..)`) satisfy `StdNaming`: generated names of different
groups of ≥ 2 finals are different particles, none of them the top or a final particle. -/
theorem stdNaming_ptL (top : PtL) (finals : List PtL) (hwf : ∀ p, p = top ∨ p ∈ finals → NameWF p) :
    StdNaming PtL.repr fmtL PtL.parse top finals := by
  have hparts : ∀ L : List PtL, (∀ x ∈ L, x ∈ finals) → 2 ≤ L.length →
      isort (L.map PtL.repr) ≠ [] ∧ (∀ a ∈ isort (L.map PtL.repr), ',' ∉ a) ∧
      2 ≤ (isort (L.map PtL.repr)).length := by
    intro L hL hlen
    have hl : (isort (L.map PtL.repr)).length = L.length := by rw [isort_length, List.length_map]
    refine ⟨?_, ?_, by omega⟩
    · intro e; rw [e] at hl; simp at hl; omega
    · intro a ha
      rw [mem_isort] at ha
      obtain ⟨p, hp, rfl⟩ := List.mem_map.1 ha
      exact (hwf p (Or.inr (hL p hp))).1
  refine ⟨fun p hp => (hwf p hp).2, ?_, ?_⟩
  · intro L₁ L₂ h1 h2 n1 n2 he
    rw [parse_fmtL, parse_fmtL] at he
    have he' : fmtL (isort (L₁.map PtL.repr)) = fmtL (isort (L₂.map PtL.repr)) := by
      injection he
    obtain ⟨a1, b1, _⟩ := hparts L₁ h1 n1
    obtain ⟨a2, b2, _⟩ := hparts L₂ h2 n2
    have hs := fmtL_inj _ _ a1 a2 b1 b2 he'
    have hp : (L₁.map PtL.repr).Perm (L₂.map PtL.repr) :=
      (isort_perm _).symm.trans (hs ▸ isort_perm _)
    have hp' := hp.map PtL.parse
    have back : ∀ L : List PtL, (∀ x ∈ L, x ∈ finals) → (L.map PtL.repr).map PtL.parse = L := by
      intro L hL
      rw [List.map_map]
      have h := List.map_congr_left (f := PtL.parse ∘ PtL.repr) (g := id) (l := L)
        (fun z hz => (hwf z (Or.inr (hL z hz))).2)
      simpa using h
    rw [back L₁ h1, back L₂ h2] at hp'
    exact hp'
  · intro L hL n p hp he
    rw [parse_fmtL] at he
    obtain ⟨_, _, n'⟩ := hparts L hL n
    have hc := comma_mem_fmtL _ n'
    have : p.repr = fmtL (isort (L.map PtL.repr)) := by rw [← he]; rfl
    exact (hwf p hp).1 (this ▸ hc)

/-! ## (b) `topology_map` for equal `topology_id(identical=False)` -/
section tmap
variable {α : Type} [DecidableEq α] [LT α] [DecidableLT α]

/-- `m = (particle map, decay map)` is a tree morphism of the chain `s` onto the chain `c`: `s` consists of the
decays of a named binary tree with pairwise different vertices, `c` of the decays of the same tree with the vertices
renamed by a map `f` that is injective on the vertices and fixes the finals; the particle map is defined exactly on
the vertices of `s` and equals `f` there; the decay map lists every decay of `s`, in order, with the decay of `c`
that has the image mother and the image daughters (`BaseDecay.__eq__`: up to daughter order). -/
def IsTreeMorphism (s c : Chain α) (m : Dict α α × List (Decay α × Decay α)) : Prop :=
  ∃ (a : α) (l r : NT α) (f : α → α), Rep s (NT.node a l r) ∧ (NT.node a l r).verts.Nodup ∧
    (∀ x ∈ (NT.node a l r).verts, ∀ y ∈ (NT.node a l r).verts, f x = f y → x = y) ∧
    (∀ z ∈ (NT.node a l r).leaves, f z = z) ∧
    Rep c ((NT.node a l r).mapN f) ∧
    (∀ x, m.1.get? x = if x ∈ (NT.node a l r).verts then some (f x) else none) ∧
    (∀ z ∈ (NT.node a l r).leaves, m.1.get? z = some z) ∧
    m.2.map (·.1) = s ∧ ∀ p ∈ m.2, p.2 ∈ c ∧ Decay.same (Decay.rename f p.1) p.2 = true

/-- ★ two chains of named binary trees with equal `topology_id(identical=False)`: `topology_map` returns a tree
morphism whose particle part maps the vertices of the first tree ONTO those of the second -/
theorem topologyMap_sameId (hα : LinLt α) {c1 c2 : Chain α} {a1 a2 : α} {l1 r1 l2 r2 : NT α}
    (h1 : Rep c1 (NT.node a1 l1 r1)) (hv1 : (NT.node a1 l1 r1).verts.Nodup)
    (h2 : Rep c2 (NT.node a2 l2 r2)) (hv2 : (NT.node a2 l2 r2).verts.Nodup)
    (hid : topologyId (fun x : α => x) c1 = topologyId (fun x : α => x) c2) :
    ∃ m, topologyMap c1 c2 = some m ∧ IsTreeMorphism c1 c2 m ∧
      ((NT.node a1 l1 r1).verts.map fun x => (m.1.get? x).getD x).Perm (NT.node a2 l2 r2).verts := by
  obtain ⟨f, hinj, hfix, hrep, hperm⟩ := sameId_renamed_copy hα h1 hv1 h2 hv2 hid
  obtain ⟨pm, dm, e1, e2, e3, e4⟩ := topologyMap_rename hα h1 hv1 f hinj hfix hrep
  refine ⟨(pm, dm), e1, ⟨a1, l1, r1, f, h1, hv1, hinj, hfix, hrep, e2, ?_, e3, e4⟩, ?_⟩
  · intro z hz
    show pm.get? z = some z
    rw [e2, if_pos ((NT.node a1 l1 r1).leaves_sub_verts z hz), hfix z hz]
  · have : ((NT.node a1 l1 r1).verts.map fun x => (pm.get? x).getD x) = (NT.node a1 l1 r1).verts.map f := by
      apply List.map_congr_left
      intro x hx
      rw [e2, if_pos hx]; rfl
    show ((NT.node a1 l1 r1).verts.map fun x => (pm.get? x).getD x).Perm _
    rw [this]; exact hperm

end tmap

/-! ## (c) `get_chains_map` -/

/-- the two lists have the same length and are related element by element -/
inductive All2 {β γ : Type} (R : β → γ → Prop) : List β → List γ → Prop
  | nil : All2 R [] []
  | cons {a : β} {b : γ} {l : List β} {l' : List γ} : R a b → All2 R l l' → All2 R (a :: l) (b :: l')

theorem mapM_forall₂ {β γ : Type} (f : β → Option γ) (R : β → γ → Prop) (l : List β)
    (h : ∀ x ∈ l, ∃ y, f x = some y ∧ R x y) : ∃ ys, l.mapM f = some ys ∧ All2 R l ys := by
  induction l with
  | nil => exact ⟨[], rfl, All2.nil⟩
  | cons a l ih =>
    obtain ⟨y, hy, hr⟩ := h a List.mem_cons_self
    obtain ⟨ys, hys, hrs⟩ := ih fun x hx => h x (List.mem_cons_of_mem _ hx)
    refine ⟨y :: ys, ?_, All2.cons hr hrs⟩
    simp only [List.mapM_cons, hy, hys, Option.pure_def, Option.bind_eq_bind, Option.bind_some]

theorem forall₂_right {β γ : Type} {R : β → γ → Prop} {l : List β} {ys : List γ} (h : All2 R l ys) :
    ∀ y ∈ ys, ∃ x ∈ l, R x y := by
  induction h with
  | nil => intro y hy; simp at hy
  | cons hr _ ih =>
    intro y hy
    rcases List.mem_cons.1 hy with rfl | hy
    · exact ⟨_, List.mem_cons_self, hr⟩
    · obtain ⟨x, hx, hxy⟩ := ih y hy
      exact ⟨x, List.mem_cons_of_mem _ hx, hxy⟩

/-- `enumerate(chains)`: the pair `(i, c)` of `zip(range(len(chains)), chains)` is the i-th chain -/
theorem mem_zip_range' {β : Type} (l : List β) (k : Nat) (i : Nat) (c : β)
    (h : (i, c) ∈ List.zip (List.range' k l.length) l) : k ≤ i ∧ l[i - k]? = some c := by
  induction l generalizing k with
  | nil => simp at h
  | cons b l ih =>
    simp only [List.length_cons, List.range'_succ, List.zip_cons_cons, List.mem_cons, Prod.mk.injEq] at h
    rcases h with ⟨rfl, rfl⟩ | h
    · simp
    · obtain ⟨h1, h2⟩ := ih (k + 1) h
      refine ⟨by omega, ?_⟩
      have : i - k = (i - (k + 1)) + 1 := by omega
      rw [this, List.getElem?_cons_succ]; exact h2

theorem mem_zip_range {β : Type} (l : List β) (i : Nat) (c : β)
    (h : (i, c) ∈ List.zip (List.range l.length) l) : l[i]? = some c := by
  rw [List.range_eq_range'] at h
  simpa using (mem_zip_range' l 0 i c h).2

section cmap
variable {α : Type} [DecidableEq α] [LT α] [DecidableLT α]

/-- the chains of a group that `get_chains_map` lists under the standardised representative `s`, with their index -/
def membersOf (s : Chain α) (chains : List (Chain α)) : List (Nat × Chain α) :=
  (List.zip (List.range chains.length) chains).filter fun ij =>
    topologySame (fun p : α => p) s ij.2 == some true

/-- ★ `get_chains_map` (after fix 41067a5) for EVERY group of chains that are binary trees (each `Rep` of a named
binary tree with pairwise different vertices — any number of finals, any order of decays and daughters) whose
standardisation function is a renaming that is injective on the vertices and fixes the finals (`hstd`; this is what
`standardTopologyG_is_renaming` proves under `StdNaming`). -/
theorem chainsMapG_spec (hα : LinLt α) (std : Chain α → Option (Chain α)) (chains : List (Chain α))
    (htree : ∀ c ∈ chains, ∃ a l r, Rep c (NT.node a l r) ∧ (NT.node a l r).verts.Nodup)
    (hstd : ∀ c ∈ chains, ∀ a l r, Rep c (NT.node a l r) → (NT.node a l r).verts.Nodup →
      ∃ f : α → α, std c = some (c.map (Decay.rename f)) ∧
        (∀ x ∈ (NT.node a l r).verts, ∀ y ∈ (NT.node a l r).verts, f x = f y → x = y) ∧
        (∀ z ∈ (NT.node a l r).leaves, f z = z)) :
    ∃ reps' cm, (topologyReps (fun p : α => p) chains).mapM std = some reps' ∧
      chainsMapG std chains = some cm ∧
      (∀ c ∈ chains, (reps'.filter fun s => topologySame (fun p : α => p) s c == some true).length = 1) ∧
      All2 (fun s cl =>
        All2 (fun ij e => e.1 = ij.1 ∧ chains[ij.1]? = some ij.2 ∧
          topologyMap s ij.2 = some e.2 ∧ IsTreeMorphism s ij.2 e.2) (membersOf s chains) cl) reps' cm := by
  have hdef : ∀ c ∈ chains, (topologyId (fun p : α => p) c).isSome := by
    intro c hc
    obtain ⟨a, l, r, h1, h2⟩ := htree c hc
    rw [Rep.topologyId hα hα (fun p : α => p) h1 h2]; rfl
  obtain ⟨hsub, _, _⟩ := C14.classes_partition (fun p : α => p) chains hdef
  -- standardisation of the representatives
  let Q : Chain α → Chain α → Prop := fun r r' =>
    topologyId (fun p : α => p) r' = topologyId (fun p : α => p) r ∧
    ∃ a l r0, Rep r' (NT.node a l r0) ∧ (NT.node a l r0).verts.Nodup
  have hQ : ∀ r ∈ topologyReps (fun p : α => p) chains, ∃ r', std r = some r' ∧ Q r r' := by
    intro r hr
    obtain ⟨a, l, r0, h1, h2⟩ := htree r (hsub r hr)
    obtain ⟨f, e, hinj, hfix⟩ := hstd r (hsub r hr) a l r0 h1 h2
    obtain ⟨hrep', hv'⟩ := h1.rename f hinj
    exact ⟨_, e, (Rep.rename_topologyId hα hα (fun p : α => p) h1 h2 f hinj hfix).1,
      f a, l.mapN f, r0.mapN f, hrep', hv' h2⟩
  obtain ⟨reps', hreps', hF⟩ := mapM_forall₂ std Q _ hQ
  have hpart := C14.standardised_classes_partition (fun p : α => p) std chains reps' hdef hreps'
    (by
      intro r hr r' hr'
      obtain ⟨r'', e, q, _⟩ := hQ r hr
      rw [hr'] at e; cases e; exact q)
  -- the maps
  have hcl : ∀ s ∈ reps', ∃ cl,
      ((membersOf s chains).mapM fun ij => (topologyMap s ij.2).map fun m => (ij.1, m)) = some cl ∧
      All2 (fun ij e => e.1 = ij.1 ∧ chains[ij.1]? = some ij.2 ∧
          topologyMap s ij.2 = some e.2 ∧ IsTreeMorphism s ij.2 e.2) (membersOf s chains) cl := by
    intro s hs
    obtain ⟨r, _, _, a, l, r0, hs1, hs2⟩ := forall₂_right hF s hs
    apply mapM_forall₂
    intro ij hij
    simp only [membersOf, List.mem_filter] at hij
    obtain ⟨hz, hsame⟩ := hij
    have hidx := mem_zip_range chains ij.1 ij.2 hz
    have hmem : ij.2 ∈ chains := List.mem_of_getElem? hidx
    obtain ⟨a2, l2, r2, hc1, hc2⟩ := htree ij.2 hmem
    have hid : topologyId (fun p : α => p) s = topologyId (fun p : α => p) ij.2 := by
      obtain ⟨x, e1, e2⟩ := (C14.sameB_iff (fun p : α => p) s ij.2).1 hsame
      rw [e1, e2]
    obtain ⟨m, hm, hmor, _⟩ := topologyMap_sameId hα hs1 hs2 hc1 hc2 hid
    exact ⟨(ij.1, m), by rw [hm]; rfl, rfl, hidx, hm, hmor⟩
  obtain ⟨cm, hcm, hF2⟩ := mapM_forall₂ (fun s =>
      (membersOf s chains).mapM fun ij => (topologyMap s ij.2).map fun m => (ij.1, m)) _ reps' hcl
  refine ⟨reps', cm, hreps', ?_, hpart, hF2⟩
  unfold chainsMapG
  rw [hreps']
  exact hcm

end cmap

end TfPwaV.Topology
