import TfPwaV.Gen.PolarR
import TfPwaV.Gen.BoundR
import Mathlib.Analysis.SpecialFunctions.Trigonometric.Deriv
import Mathlib.Analysis.SpecialFunctions.Sqrt
import Mathlib.Tactic.LinearCombination
import Mathlib.Tactic.FieldSimp
import Mathlib.Tactic.Positivity
/-! Real-number lemmas for C16: polar <-> Cartesian, `_std_polar_angle`, and the three built-in `Bound` forms. -/
open TfPwaV.ScalarR

namespace TfPwaV.PolarR

theorem xy2rp_x (x y : ℝ) : rp2xyX (xy2rpR x y) (xy2rpP x y) = x := by
  unfold rp2xyX xy2rpR xy2rpP ksqrt kcos katan2
  have h := Complex.norm_mul_cos_arg (⟨x, y⟩ : ℂ)
  rw [Complex.norm_def, Complex.normSq_mk] at h
  exact h

theorem xy2rp_y (x y : ℝ) : rp2xyY (xy2rpR x y) (xy2rpP x y) = y := by
  unfold rp2xyY xy2rpR xy2rpP ksqrt ksin katan2
  have h := Complex.norm_mul_sin_arg (⟨x, y⟩ : ℂ)
  rw [Complex.norm_def, Complex.normSq_mk] at h
  exact h

theorem xy2rp_range (x y : ℝ) : 0 ≤ xy2rpR x y ∧ -Real.pi < xy2rpP x y ∧ xy2rpP x y ≤ Real.pi := by
  unfold xy2rpR xy2rpP ksqrt katan2
  exact ⟨Real.sqrt_nonneg _, Complex.neg_pi_lt_arg _, Complex.arg_le_pi _⟩

theorem std_x (r p : ℝ) : rp2xyX (stdR r) (stdP r p) = rp2xyX r p := by
  unfold rp2xyX stdR stdP kabs kcos kpi
  split
  · next h => rw [abs_of_neg h, Real.cos_add_pi]; ring
  · rfl

theorem std_y (r p : ℝ) : rp2xyY (stdR r) (stdP r p) = rp2xyY r p := by
  unfold rp2xyY stdR stdP kabs ksin kpi
  split
  · next h => rw [abs_of_neg h, Real.sin_add_pi]; ring
  · rfl

theorem stdR_nonneg (r : ℝ) : 0 ≤ stdR r := by
  unfold stdR kabs
  split
  · exact abs_nonneg r
  · next h => exact not_lt.1 h

theorem stdAngle_eq (p : ℝ) : stdAngle p = p - (⌊(p + Real.pi) / (2 * Real.pi)⌋ : ℤ) * (2 * Real.pi) := by
  unfold stdAngle kfloor kpi
  simp only
  have : Real.pi - -Real.pi = 2 * Real.pi := by ring
  rw [this, sub_neg_eq_add]
  ring

theorem stdAngle_range (p : ℝ) : -Real.pi ≤ stdAngle p ∧ stdAngle p < Real.pi := by
  rw [stdAngle_eq]
  have hm : 0 < 2 * Real.pi := by positivity
  have h1 := Int.floor_le ((p + Real.pi) / (2 * Real.pi))
  have h2 := Int.lt_floor_add_one ((p + Real.pi) / (2 * Real.pi))
  rw [le_div_iff₀ hm] at h1
  rw [div_lt_iff₀ hm] at h2
  constructor <;> nlinarith

theorem stdAngle_cos (p : ℝ) : Real.cos (stdAngle p) = Real.cos p := by
  rw [stdAngle_eq]; exact Real.cos_sub_int_mul_two_pi _ _

theorem stdAngle_sin (p : ℝ) : Real.sin (stdAngle p) = Real.sin p := by
  rw [stdAngle_eq]; exact Real.sin_sub_int_mul_two_pi _ _

end TfPwaV.PolarR

namespace TfPwaV.BoundR

theorem clipAB_id (a b y : ℝ) (h1 : a ≤ y) (h2 : y ≤ b) : clipAB a b y = y := by
  unfold clipAB
  rw [if_neg (not_lt.2 h1), if_neg (not_lt.2 h2)]

theorem x2y_y2x_AB (a b y : ℝ) (hab : a < b) (h1 : a ≤ y) (h2 : y ≤ b) : x2yAB a b (y2xAB a b y) = y := by
  unfold x2yAB y2xAB kasin ksin
  rw [clipAB_id a b y h1 h2]
  have hpos : 0 < b - a := by linarith
  have hz1 : -1 ≤ (2 * y - a - b) / (b - a) := by rw [le_div_iff₀ hpos]; linarith
  have hz2 : (2 * y - a - b) / (b - a) ≤ 1 := by rw [div_le_iff₀ hpos]; linarith
  have hc : clamp1 ((2 * y - a - b) / (b - a)) = (2 * y - a - b) / (b - a) := by
    unfold clamp1
    rw [if_neg (not_lt.2 hz2), if_neg (not_lt.2 hz1)]
  rw [hc, Real.sin_arcsin hz1 hz2]
  field_simp
  ring

theorem x2y_range_AB (a b x : ℝ) (hab : a ≤ b) : a ≤ x2yAB a b x ∧ x2yAB a b x ≤ b := by
  unfold x2yAB ksin
  have h1 := Real.neg_one_le_sin x
  have h2 := Real.sin_le_one x
  constructor <;> nlinarith

theorem hasDerivAt_x2yAB (a b x : ℝ) : HasDerivAt (x2yAB a b) (dydxAB a b x) x := by
  unfold x2yAB dydxAB ksin kcos
  have h := ((((Real.hasDerivAt_sin x).add_const 1).const_mul (b - a)).div_const 2).add_const a
  exact h

theorem hasDerivAt_dydxAB (a b x : ℝ) : HasDerivAt (dydxAB a b) (d2AB a b x) x := by
  unfold dydxAB d2AB ksin kcos
  have h := ((Real.hasDerivAt_cos x).const_mul (b - a)).div_const 2
  exact h.congr_deriv (by ring)

theorem sqrt_aux (x : ℝ) : 0 < x * x + 1 := by nlinarith [mul_self_nonneg x]

theorem hasDerivAt_sqrtx (x : ℝ) : HasDerivAt (fun x : ℝ => Real.sqrt (x * x + 1)) (x / Real.sqrt (x * x + 1)) x := by
  have hg : HasDerivAt (fun x : ℝ => x * x + 1) (1 * x + x * 1) x := ((hasDerivAt_id x).mul (hasDerivAt_id x)).add_const 1
  have h := hg.sqrt (ne_of_gt (sqrt_aux x))
  have hs : Real.sqrt (x * x + 1) ≠ 0 := ne_of_gt (Real.sqrt_pos.2 (sqrt_aux x))
  refine h.congr_deriv ?_
  field_simp
  ring

theorem x2y_y2x_A (a y : ℝ) (h : a ≤ y) : x2yA a (y2xA a y) = y := by
  unfold x2yA y2xA clipA ksqrt
  rw [if_neg (not_lt.2 h)]
  have hw : 1 ≤ y - a + 1 := by linarith
  have h0 : 0 ≤ (y - a + 1) * (y - a + 1) - 1 := by nlinarith
  rw [Real.mul_self_sqrt h0]
  have : (y - a + 1) * (y - a + 1) - 1 + 1 = (y - a + 1) * (y - a + 1) := by ring
  rw [this, Real.sqrt_mul_self (by linarith)]
  ring

theorem x2y_range_A (a x : ℝ) : a ≤ x2yA a x := by
  unfold x2yA ksqrt
  have : 1 ≤ Real.sqrt (x * x + 1) := by
    rw [Real.one_le_sqrt]
    nlinarith [mul_self_nonneg x]
  linarith

theorem hasDerivAt_x2yA (a x : ℝ) : HasDerivAt (x2yA a) (dydxA x) x := by
  unfold x2yA dydxA ksqrt
  have h := (hasDerivAt_sqrtx x).const_add (a - 1)
  exact h

theorem hasDerivAt_dydxA (x : ℝ) : HasDerivAt dydxA (d2A x) x := by
  unfold dydxA d2A ksqrt
  have hs : Real.sqrt (x * x + 1) ≠ 0 := ne_of_gt (Real.sqrt_pos.2 (sqrt_aux x))
  have h := (hasDerivAt_id x).div (hasDerivAt_sqrtx x) hs
  refine h.congr_deriv ?_
  have hsq : Real.sqrt (x ^ 2 + 1) ^ 2 = x ^ 2 + 1 := Real.sq_sqrt (by positivity)
  have hx : x * x + 1 ≠ 0 := ne_of_gt (sqrt_aux x)
  field_simp
  rw [hsq]
  simp only [id]
  ring

theorem x2y_y2x_B (b y : ℝ) (h : y ≤ b) : x2yB b (y2xB b y) = y := by
  unfold x2yB y2xB clipB ksqrt
  rw [if_neg (not_lt.2 h)]
  have hw : y - b - 1 ≤ -1 := by linarith
  have h0 : 0 ≤ (y - b - 1) * (y - b - 1) - 1 := by nlinarith
  rw [Real.mul_self_sqrt h0]
  have : (y - b - 1) * (y - b - 1) - 1 + 1 = (-(y - b - 1)) * (-(y - b - 1)) := by ring
  rw [this, Real.sqrt_mul_self (by linarith)]
  ring

theorem x2y_range_B (b x : ℝ) : x2yB b x ≤ b := by
  unfold x2yB ksqrt
  have : 1 ≤ Real.sqrt (x * x + 1) := by
    rw [Real.one_le_sqrt]
    nlinarith [mul_self_nonneg x]
  linarith

theorem hasDerivAt_x2yB (b x : ℝ) : HasDerivAt (x2yB b) (dydxB x) x := by
  unfold x2yB dydxB ksqrt
  have h := (hasDerivAt_sqrtx x).const_sub (b + 1)
  exact h

theorem hasDerivAt_dydxB (x : ℝ) : HasDerivAt dydxB (d2B x) x := by
  have h := (hasDerivAt_dydxA x).neg
  unfold dydxA d2A at h
  unfold dydxB d2B
  exact h

end TfPwaV.BoundR
