import TfPwaV.Model.Wigner
/-! kernel evaluation of the unitarity polynomial identities, 2j = 0..7 (split from 2j = 8 to bound memory) -/
namespace TfPwaV.Wigner
theorem unitary_check_low : (List.range 8).all unitaryCheck = true := by decide +kernel
theorem dz_check_all : (List.range 9).all dzCheck = true := by decide +kernel
end TfPwaV.Wigner
