import TfPwaV.Model.Override
/-!
Helper lemmas for property C17: frame properties of the primitive updates and of `runSteps`,
"put the entries at these keys back" lemmas, and one restore lemma per computation / block of the
patched variant (`Fix.all`).  Core Lean only.
-/
namespace TfPwaV.Override

/-! ## states -/

theorem St.eq_of {s t : St} (h1 : t.params = s.params) (h2 : t.mask = s.mask) (h3 : t.chainsIdx = s.chainsIdx)
    (h4 : t.notFull = s.notFull) (h5 : t.maskFactor = s.maskFactor) (h6 : t.config = s.config) (h7 : t.ls = s.ls)
    (h8 : t.trainable = s.trainable) :
    t = s := by
  cases s; cases t; simp_all

/-- `t` equals `s` up to the chain selection (`chainsIdx`, `notFull`). -/
def Keeps (s t : St) : Prop :=
  t.params = s.params ∧ t.mask = s.mask ∧ t.maskFactor = s.maskFactor ∧ t.config = s.config ∧ t.ls = s.ls ∧
    t.trainable = s.trainable

theorem Keeps.refl (s : St) : Keeps s s := ⟨rfl, rfl, rfl, rfl, rfl, rfl⟩

theorem Keeps.trans {a b c : St} (h1 : Keeps a b) (h2 : Keeps b c) : Keeps a c := by
  obtain ⟨p1, p2, p3, p4, p5, p6⟩ := h1
  obtain ⟨q1, q2, q3, q4, q5, q6⟩ := h2
  exact ⟨q1.trans p1, q2.trans p2, q3.trans p3, q4.trans p4, q5.trans p5, q6.trans p6⟩

theorem restoreChains_eq {s t : St} (h : Keeps s t) : restoreChains s t = s := by
  obtain ⟨p1, p2, p3, p4, p5, p6⟩ := h
  exact St.eq_of p1 p2 rfl rfl p3 p4 p5 p6

theorem keeps_setUsedChains (E : Env) (s : St) (l : List Nat) : Keeps s (setUsedChains E s l) :=
  ⟨rfl, rfl, rfl, rfl, rfl, rfl⟩

theorem keeps_setUsedRes (E : Env) (s : St) (r : List Sel) : Keeps s (setUsedRes E s r) :=
  ⟨rfl, rfl, rfl, rfl, rfl, rfl⟩

/-! ## `runSteps` -/

theorem runSteps_nil (E : Env) (fault : Option Nat) (i : Nat) (s : St) :
    runSteps E fault [] i s = (s, false, i) := rfl

theorem runSteps_eval (E : Env) (fault : Option Nat) (rest : List Step) (i : Nat) (s : St) :
    runSteps E fault (Step.eval :: rest) i s =
      if fault = some i then (s, true, i) else runSteps E fault rest (i + 1) s := rfl

theorem runSteps_act (E : Env) (fault : Option Nat) (st : Step) (rest : List Step) (i : Nat) (s : St)
    (h : st ≠ Step.eval) :
    runSteps E fault (st :: rest) i s = runSteps E fault rest i (applyStep E st s) := by
  cases st <;> first | rfl | exact absurd rfl h

/-- a projection of the state that every step of the list preserves is preserved by the run -/
theorem runSteps_proj {β : Type} (π : St → β) (E : Env) (fault : Option Nat) :
    ∀ (steps : List Step) (i : Nat) (s : St),
      (∀ st ∈ steps, ∀ t, π (applyStep E st t) = π t) → π (runSteps E fault steps i s).1 = π s := by
  intro steps
  induction steps with
  | nil => intro i s _; rfl
  | cons st rest ih =>
    intro i s h
    have hrest : ∀ st ∈ rest, ∀ t, π (applyStep E st t) = π t := fun st hm => h st (List.mem_cons_of_mem _ hm)
    by_cases he : st = Step.eval
    · subst he
      rw [runSteps_eval]
      split
      · rfl
      · exact ih (i + 1) s hrest
    · rw [runSteps_act E fault st rest i s he, ih i _ hrest]
      exact h st (List.mem_cons_self) s

theorem applyStep_params (E : Env) (st : Step) (t : St) : (applyStep E st t).params = t.params := by
  cases st <;> rfl

theorem applyStep_maskFactor (E : Env) (st : Step) (t : St) : (applyStep E st t).maskFactor = t.maskFactor := by
  cases st <;> rfl

theorem applyStep_config (E : Env) (st : Step) (t : St) : (applyStep E st t).config = t.config := by
  cases st <;> rfl

theorem applyStep_trainable (E : Env) (st : Step) (t : St) : (applyStep E st t).trainable = t.trainable := by
  cases st <;> rfl

def Step.isMask : Step → Bool
  | .setMask _ => true
  | _ => false

def Step.isLs : Step → Bool
  | .setLs1 _ _ => true
  | _ => false

theorem applyStep_mask (E : Env) (st : Step) (t : St) (h : st.isMask = false) : (applyStep E st t).mask = t.mask := by
  cases st <;> first | rfl | simp [Step.isMask] at h

theorem applyStep_ls (E : Env) (st : Step) (t : St) (h : st.isLs = false) : (applyStep E st t).ls = t.ls := by
  cases st <;> first | rfl | simp [Step.isLs] at h

/-- steps that neither mask nor touch the ls selection keep everything but the chain selection -/
theorem runSteps_keeps (E : Env) (fault : Option Nat) (steps : List Step) (i : Nat) (s : St)
    (hm : ∀ st ∈ steps, st.isMask = false) (hl : ∀ st ∈ steps, st.isLs = false) :
    Keeps s (runSteps E fault steps i s).1 :=
  ⟨runSteps_proj St.params E fault steps i s (fun st _ t => applyStep_params E st t),
   runSteps_proj St.mask E fault steps i s (fun st h t => applyStep_mask E st t (hm st h)),
   runSteps_proj St.maskFactor E fault steps i s (fun st _ t => applyStep_maskFactor E st t),
   runSteps_proj St.config E fault steps i s (fun st _ t => applyStep_config E st t),
   runSteps_proj St.ls E fault steps i s (fun st h t => applyStep_ls E st t (hl st h)),
   runSteps_proj St.trainable E fault steps i s (fun st _ t => applyStep_trainable E st t)⟩

/-! ## putting entries back -/

theorem setVals_restore (orig : List Val) :
    ∀ (keys : List Nat) (cur : List Val), cur.length = orig.length →
      (∀ i, i ∉ keys → cur[i]? = orig[i]?) →
      setVals (keys.map fun k => (k, getRaw orig k)) cur = orig := by
  intro keys
  induction keys with
  | nil =>
    intro cur _ h
    simp only [List.map_nil, setVals]
    exact List.ext_getElem? fun i => h i (by simp)
  | cons k ks ih =>
    intro cur hl h
    simp only [List.map_cons, setVals]
    apply ih
    · simp [hl]
    · intro i hi
      by_cases hik : k = i
      · subst hik
        by_cases hk : k < orig.length
        · rw [List.getElem?_set_self (by omega)]
          simp [getRaw, List.getElem?_eq_getElem hk]
        · rw [List.getElem?_eq_none (by simp; omega), List.getElem?_eq_none (by omega)]
      · rw [List.getElem?_set_ne hik]
        exact h i (by simp [hi, Ne.symm hik])

theorem setAll_frame :
    ∀ (p : List (Nat × PV)) (ps : List Val),
      (setAll p ps).1.length = ps.length ∧ ∀ i, i ∉ p.map (·.1) → (setAll p ps).1[i]? = ps[i]? := by
  intro p
  induction p with
  | nil => intro ps; exact ⟨rfl, fun _ _ => rfl⟩
  | cons kv rest ih =>
    intro ps
    obtain ⟨k, pv⟩ := kv
    cases pv with
    | good v =>
      simp only [setAll]
      obtain ⟨h1, h2⟩ := ih (ps.set k v)
      refine ⟨by simp [h1], fun i hi => ?_⟩
      have hik : k ≠ i := by intro h; subst h; simp at hi
      rw [h2 i (by simp at hi ⊢; exact hi.2), List.getElem?_set_ne hik]
    | bad =>
      simp only [setAll]
      split
      · exact ⟨rfl, fun _ _ => rfl⟩
      · obtain ⟨h1, h2⟩ := ih ps
        exact ⟨h1, fun i hi => h2 i (by simp at hi ⊢; exact hi.2)⟩

theorem restoreLs_other (s : St) : ∀ (ds : List Nat) (gs : List (List Nat)),
    (restoreLs s ds gs).params = s.params ∧ (restoreLs s ds gs).mask = s.mask ∧
    (restoreLs s ds gs).chainsIdx = s.chainsIdx ∧ (restoreLs s ds gs).notFull = s.notFull ∧
    (restoreLs s ds gs).maskFactor = s.maskFactor ∧ (restoreLs s ds gs).config = s.config ∧
    (restoreLs s ds gs).trainable = s.trainable := by
  intro ds
  induction ds generalizing s with
  | nil => intro gs; exact ⟨rfl, rfl, rfl, rfl, rfl, rfl, rfl⟩
  | cons d ds ih =>
    intro gs
    cases gs with
    | nil => exact ⟨rfl, rfl, rfl, rfl, rfl, rfl, rfl⟩
    | cons g gs =>
      simp only [restoreLs]
      exact ih (setLs s d g) gs

theorem restoreLs_ls (orig : List (List Nat)) :
    ∀ (ds : List Nat) (s : St), s.ls.length = orig.length →
      (∀ i, i ∉ ds → s.ls[i]? = orig[i]?) →
      (restoreLs s ds (ds.map fun d => orig[d]?.getD [])).ls = orig := by
  intro ds
  induction ds with
  | nil =>
    intro s _ h
    simp only [restoreLs]
    exact List.ext_getElem? fun i => h i (by simp)
  | cons k ks ih =>
    intro s hl h
    simp only [List.map_cons, restoreLs]
    apply ih
    · simp [setLs, hl]
    · intro i hi
      simp only [setLs]
      by_cases hik : k = i
      · subst hik
        by_cases hk : k < orig.length
        · rw [List.getElem?_set_self (by omega)]
          simp [List.getElem?_eq_getElem hk]
        · rw [List.getElem?_eq_none (by simp; omega), List.getElem?_eq_none (by omega)]
      · rw [List.getElem?_set_ne hik]
        exact h i (by simp [hi, Ne.symm hik])

/-- steps that only select single couplings of the decays `ds` leave the ls selection of all other decays alone -/
theorem runSteps_ls_frame (E : Env) (fault : Option Nat) (ds : List Nat) :
    ∀ (steps : List Step) (i : Nat) (s : St),
      (∀ st ∈ steps, st = Step.eval ∨ ∃ d g, d ∈ ds ∧ st = Step.setLs1 d g) →
      (runSteps E fault steps i s).1.ls.length = s.ls.length ∧
        ∀ k, k ∉ ds → (runSteps E fault steps i s).1.ls[k]? = s.ls[k]? := by
  intro steps
  induction steps with
  | nil => intro i s _; exact ⟨rfl, fun _ _ => rfl⟩
  | cons st rest ih =>
    intro i s h
    have hrest := fun st hm => h st (List.mem_cons_of_mem _ hm)
    rcases h st List.mem_cons_self with he | ⟨d, g, hd, he⟩
    · subst he
      rw [runSteps_eval]
      split
      · exact ⟨rfl, fun _ _ => rfl⟩
      · exact ih (i + 1) s hrest
    · subst he
      rw [runSteps_act E fault _ rest i s (by simp)]
      obtain ⟨h1, h2⟩ := ih i (applyStep E (Step.setLs1 d g) s) hrest
      refine ⟨by rw [h1]; simp [applyStep, setLs], fun k hk => ?_⟩
      rw [h2 k hk]
      have : d ≠ k := by intro e; subst e; exact hk hd
      simp [applyStep, setLs, List.getElem?_set_ne this]

/-! ## computations of the patched variant -/

theorem saveRunRestore_fixed (E : Env) (fault : Option Nat) (steps : List Step) (s : St)
    (hm : ∀ st ∈ steps, st.isMask = false) (hl : ∀ st ∈ steps, st.isLs = false) :
    (saveRunRestore true E fault steps s).1 = s := by
  unfold saveRunRestore
  simp only [if_true]
  exact restoreChains_eq (runSteps_keeps E fault steps 0 s hm hl)

theorem ffPairs_plain (nb : Nat) (res : List Sel) :
    ∀ st ∈ ffPairs nb res, st.isMask = false ∧ st.isLs = false := by
  intro st h
  unfold ffPairs at h
  simp only [List.mem_flatMap] at h
  obtain ⟨i, _, j, _, h⟩ := h
  split at h
  · rcases List.mem_cons.mp h with h | h
    · subst h; split <;> exact ⟨rfl, rfl⟩
    · rw [evals, List.mem_replicate] at h
      rw [h.2]; exact ⟨rfl, rfl⟩
  · simp at h

theorem evals_plain (n : Nat) : ∀ st ∈ evals n, st.isMask = false ∧ st.isLs = false := by
  intro st h
  rw [evals, List.mem_replicate] at h
  rw [h.2]; exact ⟨rfl, rfl⟩

theorem ffNewBatches_fixed (fx : Fix) (hfx : fx.appendInt = true) (E : Env) (fault : Option Nat) (res : List Sel) :
    ∀ (nb i : Nat) (s : St), (ffNewBatches fx E fault res nb i s).1 = s := by
  intro nb
  induction nb with
  | zero => intro i s; rfl
  | succ nb ih =>
    intro i s
    unfold ffNewBatches
    have hk : Keeps s (runSteps E fault (Step.eval :: ffPairs 1 res) i s).1 := by
      apply runSteps_keeps
      · intro st h
        rcases List.mem_cons.mp h with h | h
        · subst h; rfl
        · exact (ffPairs_plain 1 res st h).1
      · intro st h
        rcases List.mem_cons.mp h with h | h
        · subst h; rfl
        · exact (ffPairs_plain 1 res st h).2
    simp only [hfx, if_true]
    rw [restoreChains_eq hk]
    split
    · rfl
    · exact ih _ s

/-- one chain of the patched `factor_iteration`: the mask is back, whatever happened -/
theorem maskItems_mask (E : Env) (fault : Option Nat) (saved : List (Nat × Val)) :
    ∀ (masks : List (List (Nat × Val))) (i : Nat) (s : St), s.mask = saved →
      (runSteps E fault (masks.flatMap fun j => [Step.setMask j, Step.eval, Step.setMask saved]) i s).2.1 = false →
      (runSteps E fault (masks.flatMap fun j => [Step.setMask j, Step.eval, Step.setMask saved]) i s).1.mask = saved := by
  intro masks
  induction masks with
  | nil => intro i s h _; exact h
  | cons j js ih =>
    intro i s _ hr
    simp only [List.flatMap_cons, List.cons_append, List.nil_append] at hr ⊢
    rw [runSteps_act _ _ _ _ _ _ (by simp), runSteps_eval] at hr ⊢
    split at hr
    · simp at hr
    · rename_i hne
      rw [if_neg hne]
      rw [runSteps_act _ _ _ _ _ _ (by simp)] at hr ⊢
      exact ih (i + 1) _ rfl hr

theorem maskItems_other (E : Env) (fault : Option Nat) (saved : List (Nat × Val))
    (masks : List (List (Nat × Val))) (i : Nat) (s : St) :
    let t := (runSteps E fault (masks.flatMap fun j => [Step.setMask j, Step.eval, Step.setMask saved]) i s).1
    t.params = s.params ∧ t.maskFactor = s.maskFactor ∧ t.config = s.config ∧ t.ls = s.ls ∧
      t.trainable = s.trainable := by
  refine ⟨runSteps_proj St.params E fault _ i s (fun st _ t => applyStep_params E st t),
    runSteps_proj St.maskFactor E fault _ i s (fun st _ t => applyStep_maskFactor E st t),
    runSteps_proj St.config E fault _ i s (fun st _ t => applyStep_config E st t),
    runSteps_proj St.ls E fault _ i s (fun st h t => applyStep_ls E st t ?_),
    runSteps_proj St.trainable E fault _ i s (fun st _ t => applyStep_trainable E st t)⟩
  simp only [List.mem_flatMap] at h
  obtain ⟨j, _, h⟩ := h
  simp only [List.mem_cons, List.not_mem_nil, or_false] at h
  rcases h with h | h | h <;> subst h <;> rfl

theorem fiChain_keeps (fx : Fix) (hfx : fx.vmMask = true) (E : Env) (fault : Option Nat) (deep k i : Nat) (s : St) :
    Keeps s (fiChain fx E fault deep k i s).1 := by
  unfold fiChain
  split
  · exact Keeps.trans (keeps_setUsedChains E s [k])
      (runSteps_keeps E fault [Step.eval] i _ (by simp [Step.isMask]) (by simp [Step.isLs]))
  · simp only [hfx, Bool.and_true]
    obtain ⟨h1, h3, h4, h5, h6⟩ := maskItems_other E fault (setUsedChains E s [k]).mask (E.factorMasks[k]?.getD []) i
      (setUsedChains E s [k])
    split
    · exact ⟨h1, rfl, h3, h4, h5, h6⟩
    · rename_i hr
      refine ⟨h1, ?_, h3, h4, h5, h6⟩
      exact maskItems_mask E fault _ _ i _ rfl (by simpa using hr)

theorem fiChains_keeps (fx : Fix) (hfx : fx.vmMask = true) (E : Env) (fault : Option Nat) (deep : Nat) :
    ∀ (ks : List Nat) (i : Nat) (s : St), Keeps s (fiChains fx E fault deep ks i s).1 := by
  intro ks
  induction ks with
  | nil => intro i s; exact Keeps.refl s
  | cons k ks ih =>
    intro i s
    unfold fiChains
    have h1 := fiChain_keeps fx hfx E fault deep k i s
    generalize fiChain fx E fault deep k i s = res at h1 ⊢
    obtain ⟨s1, r, i1⟩ := res
    simp only
    split
    · exact h1
    · exact Keeps.trans h1 (ih _ _)

theorem bamChain_keeps (fx : Fix) (hfx : fx.splitGls = true) (E : Env) (fault : Option Nat) (k i : Nat) (s : St) :
    Keeps s (bamChain fx E fault k i s).1 := by
  unfold bamChain
  simp only [hfx, if_true]
  -- abbreviations
  generalize hds : E.chainDecays[k]?.getD [] = ds
  generalize hs1 : setUsedChains E s [k] = s1
  have hs1ls : s1.ls = s.ls := by rw [← hs1]; rfl
  generalize hsteps : ((product (ds.map fun d => s1.ls[d]?.getD [])).flatMap fun c =>
      ((ds.zip c).map fun x => Step.setLs1 x.1 x.2) ++ [Step.eval]) = steps
  have hshape : ∀ st ∈ steps, st = Step.eval ∨ ∃ d g, d ∈ ds ∧ st = Step.setLs1 d g := by
    intro st h
    rw [← hsteps] at h
    simp only [List.mem_flatMap, List.mem_append, List.mem_map, List.mem_singleton] at h
    obtain ⟨c, _, h | h⟩ := h
    · obtain ⟨x, hx, rfl⟩ := h
      exact Or.inr ⟨x.1, x.2, (List.of_mem_zip hx).1, rfl⟩
    · exact Or.inl h
  have hnomask : ∀ st ∈ steps, st.isMask = false := by
    intro st h
    rcases hshape st h with h | ⟨d, g, _, h⟩ <;> subst h <;> rfl
  obtain ⟨hlen, hoff⟩ := runSteps_ls_frame E fault ds steps i s1 hshape
  have hp := runSteps_proj St.params E fault steps i s1 (fun st _ t => applyStep_params E st t)
  have hm := runSteps_proj St.mask E fault steps i s1 (fun st h t => applyStep_mask E st t (hnomask st h))
  have hf := runSteps_proj St.maskFactor E fault steps i s1 (fun st _ t => applyStep_maskFactor E st t)
  have hc := runSteps_proj St.config E fault steps i s1 (fun st _ t => applyStep_config E st t)
  have htr := runSteps_proj St.trainable E fault steps i s1 (fun st _ t => applyStep_trainable E st t)
  have hls := restoreLs_ls s1.ls ds (runSteps E fault steps i s1).1 hlen hoff
  obtain ⟨o1, o2, _, _, o5, o6, o7⟩ := restoreLs_other (runSteps E fault steps i s1).1 ds (ds.map fun d => s1.ls[d]?.getD [])
  have hk : Keeps s (restoreLs (runSteps E fault steps i s1).1 ds (ds.map fun d => s1.ls[d]?.getD [])) := by
    refine ⟨?_, ?_, ?_, ?_, ?_, ?_⟩
    · rw [o1, hp, ← hs1]; rfl
    · rw [o2, hm, ← hs1]; rfl
    · rw [o5, hf, ← hs1]; rfl
    · rw [o6, hc, ← hs1]; rfl
    · rw [hls, hs1ls]
    · rw [o7, htr, ← hs1]; rfl
  split <;> exact hk

theorem bamChains_keeps (fx : Fix) (hfx : fx.splitGls = true) (E : Env) (fault : Option Nat) :
    ∀ (ks : List Nat) (i : Nat) (s : St), Keeps s (bamChains fx E fault ks i s).1 := by
  intro ks
  induction ks with
  | nil => intro i s; exact Keeps.refl s
  | cons k ks ih =>
    intro i s
    unfold bamChains
    have h1 := bamChain_keeps fx hfx E fault k i s
    generalize bamChain fx E fault k i s = res at h1 ⊢
    obtain ⟨s1, r, i1⟩ := res
    simp only
    split
    · exact h1
    · exact Keeps.trans h1 (ih _ _)

/-! ## the further computations (plain evaluations, PlotAllData, likelihood_profile, get_params_error, partial_amp) -/

theorem runSteps_evals_id (E : Env) (fault : Option Nat) : ∀ (n i : Nat) (s : St),
    (runSteps E fault (evals n) i s).1 = s := by
  intro n
  induction n with
  | zero => intro i s; rfl
  | succ n ih =>
    intro i s
    rw [evals, List.replicate_succ, runSteps_eval]
    split
    · rfl
    · exact ih (i + 1) s

theorem runSteps_one_eval_id (E : Env) (fault : Option Nat) (i : Nat) (s : St) :
    (runSteps E fault [Step.eval] i s).1 = s := runSteps_evals_id E fault 1 i s

/-- `t` equals `s` up to the stored parameter values. -/
def UpTo (s t : St) : Prop :=
  t.mask = s.mask ∧ t.chainsIdx = s.chainsIdx ∧ t.notFull = s.notFull ∧ t.maskFactor = s.maskFactor ∧
    t.config = s.config ∧ t.ls = s.ls ∧ t.trainable = s.trainable

theorem UpTo.refl (s : St) : UpTo s s := ⟨rfl, rfl, rfl, rfl, rfl, rfl, rfl⟩

theorem UpTo.of_eq {s t : St} (h : t = s) : UpTo s t := h ▸ UpTo.refl s

theorem UpTo.trans {a b c : St} (h1 : UpTo a b) (h2 : UpTo b c) : UpTo a c := by
  obtain ⟨p1, p2, p3, p4, p5, p6, p7⟩ := h1
  obtain ⟨q1, q2, q3, q4, q5, q6, q7⟩ := h2
  exact ⟨q1.trans p1, q2.trans p2, q3.trans p3, q4.trans p4, q5.trans p5, q6.trans p6, q7.trans p7⟩

/-- putting the parameters back completes a state that is restored up to the parameters -/
theorem UpTo.fix {s t : St} (h : UpTo s t) : { t with params := s.params } = s := by
  obtain ⟨p1, p2, p3, p4, p5, p6, p7⟩ := h
  exact St.eq_of rfl p1 p2 p3 p4 p5 p6 p7

theorem UpTo.setParams (s : St) (ps : List Val) : UpTo s { s with params := ps } := ⟨rfl, rfl, rfl, rfl, rfl, rfl, rfl⟩

/-- `t` equals `s` up to the stored parameter values and the list of trainable variables. -/
def UpToPT (s t : St) : Prop :=
  t.mask = s.mask ∧ t.chainsIdx = s.chainsIdx ∧ t.notFull = s.notFull ∧ t.maskFactor = s.maskFactor ∧
    t.config = s.config ∧ t.ls = s.ls

theorem UpToPT.fix {s t : St} (h : UpToPT s t) : { t with params := s.params, trainable := s.trainable } = s := by
  obtain ⟨p1, p2, p3, p4, p5, p6⟩ := h
  exact St.eq_of rfl p1 p2 p3 p4 p5 p6 rfl

theorem UpToPT.trans {a b c : St} (h1 : UpToPT a b) (h2 : UpToPT b c) : UpToPT a c := by
  obtain ⟨p1, p2, p3, p4, p5, p6⟩ := h1
  obtain ⟨q1, q2, q3, q4, q5, q6⟩ := h2
  exact ⟨q1.trans p1, q2.trans p2, q3.trans p3, q4.trans p4, q5.trans p5, q6.trans p6⟩

theorem lpScan_upToPT (E : Env) (fault : Option Nat) (v : Nat) :
    ∀ (xs : List Val) (i : Nat) (s : St), UpToPT s (lpScan E fault v xs i s).1 := by
  intro xs
  induction xs with
  | nil => intro i s; exact ⟨rfl, rfl, rfl, rfl, rfl, rfl⟩
  | cons x xs ih =>
    intro i s
    unfold lpScan
    simp only
    split
    · exact ⟨rfl, rfl, rfl, rfl, rfl, rfl⟩
    · exact UpToPT.trans (b := havocTr (setFix E s v x false)) ⟨rfl, rfl, rfl, rfl, rfl, rfl⟩ (ih _ _)

/-- the patched `likelihood_profile` restores, whichever fit raises, whatever the fits leave behind -/
theorem execLikeProf_fixed (E : Env) (fault : Option Nat) (v : Nat) (up down : List Val) (s : St) :
    (execLikeProf true E fault v up down s).1 = s := by
  unfold execLikeProf
  split
  · rfl
  · simp only [if_true]
    have h1 := lpScan_upToPT E fault v up 0 s
    generalize lpScan E fault v up 0 s = res1 at h1
    obtain ⟨s1, r1, i1⟩ := res1
    simp only at h1 ⊢
    split
    · exact h1.fix
    · have h3 := lpScan_upToPT E fault v down i1 { s1 with params := s.view }
      generalize lpScan E fault v down i1 { s1 with params := s.view } = res3 at h3
      obtain ⟨s3, r3, i3⟩ := res3
      simp only at h3 ⊢
      have h13 : UpToPT s s3 := UpToPT.trans (b := { s1 with params := s.view }) h1 h3
      split
      · exact h13.fix
      · exact (UpToPT.trans (b := s3) h13 ⟨rfl, rfl, rfl, rfl, rfl, rfl⟩).fix

theorem fdLoop_upTo (fault : Option Nat) : ∀ (n i : Nat) (s : St), UpTo s (fdLoop fault n i s).1 := by
  intro n
  induction n with
  | zero => intro i s; exact UpTo.refl s
  | succ n ih =>
    intro i s
    unfold fdLoop
    simp only
    split
    · exact ⟨rfl, rfl, rfl, rfl, rfl, rfl, rfl⟩
    · exact UpTo.trans (b := havocTr s) ⟨rfl, rfl, rfl, rfl, rfl, rfl, rfl⟩ (ih _ _)

/-- the patched `get_params_error` restores: whatever `params` it is given, whichever evaluation raises -/
theorem execParamsError_fixed (fault : Option Nat) (p : List (Nat × PV)) (nfd : Nat) (s : St) :
    (execParamsError true fault p nfd s).1 = s := by
  unfold execParamsError
  simp only [if_true]
  apply UpTo.fix
  split
  · exact UpTo.setParams s _
  · split
    · exact UpTo.setParams s _
    · exact UpTo.trans (UpTo.setParams s (setAll p s.params).1) (fdLoop_upTo fault nfd 1 _)

/-- the sites a computation goes through carry the patch -/
def compCovered (fx : Fix) : Comp → Bool
  | .pw _ => fx.pw
  | .pwBase _ => fx.pwBase
  | .pwi => fx.pwi
  | .calFF _ _ => fx.calFF
  | .ffNew _ _ => fx.appendInt
  | .factorIter _ => fx.factorIter && fx.vmMask
  | .bam => fx.bam && fx.splitGls
  | .evalN _ => true
  | .plotAll _ => fx.plotAll
  | .likeProf _ _ _ => fx.likeProf
  | .paramsError _ _ => fx.hesse
  | .partialAmp _ => fx.tempVar

def blockCovered (fx : Fix) : Block → Bool
  | .absTemp _ => fx.absTemp
  | .vmTemp _ => fx.vmTemp
  | .maskParams _ => fx.vmMask
  | .usedRes _ => fx.usedRes
  | .glsOne => fx.glsOne
  | .tempConfig _ _ => fx.tempConfig
  | .absTempSeq _ => fx.absTemp
  | .vmTempSeq _ => true

/-- every block / computation occurring in the program goes through patched sites only -/
def covered (fx : Fix) : Prog → Bool
  | .skip => true
  | .raise => true
  | .compute c _ => compCovered fx c
  | .setParams _ => true
  | .block b body => blockCovered fx b && covered fx body
  | .seq p q => covered fx p && covered fx q

/-- every `set_params` of the user code sits inside (some level of) an `amp.temp_params` block -/
def guarded : Prog → Bool
  | .skip => true
  | .raise => true
  | .compute _ _ => true
  | .setParams _ => false
  | .block (.absTemp _) _ => true
  | .block (.absTempSeq _) _ => true
  | .block _ body => guarded body
  | .seq p q => guarded p && guarded q

/-- the program contains no `set_params` of the user code -/
def noSet : Prog → Bool
  | .setParams _ => false
  | .block _ body => noSet body
  | .seq p q => noSet p && noSet q
  | _ => true

theorem guarded_of_noSet (p : Prog) (h : noSet p = true) : guarded p = true := by
  induction p with
  | skip => rfl
  | raise => rfl
  | compute c f => rfl
  | setParams q => simp [noSet] at h
  | block b body ih =>
    simp only [noSet] at h
    cases b <;> first | rfl | exact ih h
  | seq p q ihp ihq =>
    simp only [noSet, Bool.and_eq_true] at h
    simp [guarded, ihp h.1, ihq h.2]

theorem covered_all (p : Prog) : covered Fix.all p = true := by
  induction p with
  | skip => rfl
  | raise => rfl
  | compute c _ => cases c <;> rfl
  | setParams _ => rfl
  | block b body ih => cases b <;> simpa [covered, blockCovered, Fix.all] using ih
  | seq p q ihp ihq => simp [covered, ihp, ihq]

/-- every computation whose sites are patched restores the state, whichever evaluation raises -/
theorem execComp_covered (fx : Fix) (E : Env) (c : Comp) (hc : compCovered fx c = true) (fault : Option Nat) (s : St) :
    (execComp fx E c fault s).1 = s := by
  cases c with
  | pw comb =>
    simp only [compCovered] at hc
    simp only [execComp, hc]
    apply saveRunRestore_fixed <;>
    · intro st h
      simp only [List.mem_flatMap, List.mem_cons, List.not_mem_nil, or_false] at h
      obtain ⟨_, _, h | h⟩ := h <;> subst h <;> rfl
  | pwBase comb =>
    simp only [compCovered] at hc
    simp only [execComp, hc]
    apply saveRunRestore_fixed <;>
    · intro st h
      simp only [List.mem_flatMap, List.mem_cons, List.not_mem_nil, or_false] at h
      obtain ⟨_, _, h | h⟩ := h <;> subst h <;> rfl
  | pwi =>
    simp only [compCovered] at hc
    simp only [execComp, hc]
    apply saveRunRestore_fixed <;>
    · intro st h
      simp only [List.mem_flatMap, List.mem_cons, List.not_mem_nil, or_false] at h
      obtain ⟨_, _, h | h⟩ := h <;> subst h <;> rfl
  | calFF nb res =>
    simp only [compCovered] at hc
    simp only [execComp, hc, if_true]
    apply restoreChains_eq
    apply runSteps_keeps
    · intro st h
      rcases List.mem_cons.mp h with h | h
      · subst h; rfl
      · rcases List.mem_append.mp h with h | h
        · exact (evals_plain nb st h).1
        · exact (ffPairs_plain nb res st h).1
    · intro st h
      rcases List.mem_cons.mp h with h | h
      · subst h; rfl
      · rcases List.mem_append.mp h with h | h
        · exact (evals_plain nb st h).2
        · exact (ffPairs_plain nb res st h).2
  | ffNew nb res =>
    simp only [compCovered] at hc
    simp only [execComp]
    exact ffNewBatches_fixed fx hc E fault res nb 0 s
  | factorIter deep =>
    simp only [compCovered, Bool.and_eq_true] at hc
    simp only [execComp]
    split
    · exact (St.eq_of (runSteps_proj St.params E fault _ 0 s (fun st _ t => applyStep_params E st t))
        (runSteps_proj St.mask E fault [Step.eval] 0 s (by simp [applyStep]))
        (runSteps_proj St.chainsIdx E fault [Step.eval] 0 s (by simp [applyStep]))
        (runSteps_proj St.notFull E fault [Step.eval] 0 s (by simp [applyStep]))
        (runSteps_proj St.maskFactor E fault _ 0 s (fun st _ t => applyStep_maskFactor E st t))
        (runSteps_proj St.config E fault _ 0 s (fun st _ t => applyStep_config E st t))
        (runSteps_proj St.ls E fault [Step.eval] 0 s (by simp [applyStep]))
        (runSteps_proj St.trainable E fault _ 0 s (fun st _ t => applyStep_trainable E st t)))
    · simp only [hc.1, if_true]
      exact restoreChains_eq (fiChains_keeps fx hc.2 E fault deep s.chainsIdx 0 s)
  | bam =>
    simp only [compCovered, Bool.and_eq_true] at hc
    simp only [execComp, hc.1, if_true]
    exact restoreChains_eq (bamChains_keeps fx hc.2 E fault (List.range E.nChains) 0 s)
  | evalN n =>
    simp only [execComp]
    exact runSteps_evals_id E fault n 0 s
  | plotAll res =>
    simp only [compCovered] at hc
    simp only [execComp, hc, if_true]
    apply restoreChains_eq
    apply runSteps_keeps <;>
    · intro st h
      rcases List.mem_cons.mp h with h | h
      · subst h; rfl
      · simp only [List.mem_flatMap, List.mem_cons, List.not_mem_nil, or_false] at h
        obtain ⟨_, _, h | h⟩ := h <;> subst h <;> rfl
  | likeProf v up down =>
    simp only [compCovered] at hc
    simp only [execComp, hc]
    exact execLikeProf_fixed E fault v up down s
  | paramsError p nfd =>
    simp only [compCovered] at hc
    simp only [execComp, hc]
    exact execParamsError_fixed fault p nfd s
  | partialAmp zs =>
    simp only [compCovered] at hc
    simp only [execComp, hc, if_true]
    rw [runSteps_one_eval_id]

theorem execComp_fixed (E : Env) (c : Comp) (fault : Option Nat) (s : St) :
    (execComp Fix.all E c fault s).1 = s :=
  execComp_covered Fix.all E c (by cases c <;> rfl) fault s

/-! ## blocks of the patched variant -/

theorem set_set_back (l : List Val) (k : Nat) (v : Val) (h : ¬ l.length ≤ k) :
    (l.set k v).set k (l[k]?.getD (.lit 0)) = l := by
  rw [List.set_set]
  have hk : k < l.length := by omega
  rw [List.getElem?_eq_getElem hk]
  simp

/-- every block whose site is patched restores the state if its body does, whether the body (or the entry) raises or not -/
theorem execBlock_covered (fx : Fix) (E : Env) (b : Block) (hb : blockCovered fx b = true) (body : St → St × Bool)
    (hbody : ∀ t, (body t).1 = t) (s : St) :
    (execBlock fx E b body s).1 = s := by
  cases b with
  | absTemp p =>
    simp only [blockCovered] at hb
    simp only [execBlock, hb, if_true]
    split
    · rfl
    · simp only [hbody]
  | vmTemp p =>
    simp only [blockCovered] at hb
    simp only [execBlock, hb, if_true]
    split
    · rfl
    · obtain ⟨hlen, hoff⟩ := setAll_frame p s.params
      have hmm : (p.map fun kv => (kv.1, getRaw s.params kv.1)) =
          ((p.map (·.1)).map fun k => (k, getRaw s.params k)) := by
        simp [List.map_map, Function.comp_def]
      have hback := setVals_restore s.params (p.map (·.1)) (setAll p s.params).1 hlen hoff
      split
      · simp only [hmm, hback]
      · simp only [hbody, hmm, hback]
  | maskParams m =>
    simp only [blockCovered] at hb
    simp only [execBlock, hb, Bool.true_or, if_true, hbody]
  | usedRes r =>
    simp only [blockCovered] at hb
    simp only [execBlock, hb, if_true, hbody]
    exact restoreChains_eq (keeps_setUsedRes E s r)
  | glsOne =>
    simp only [blockCovered] at hb
    simp only [execBlock, hb, Bool.true_or, if_true, hbody]
  | tempConfig k v =>
    simp only [blockCovered] at hb
    simp only [execBlock, hb, Bool.true_or, if_true]
    split
    · rfl
    · rename_i h
      simp only [hbody]
      rw [set_set_back s.config k v h]
  | absTempSeq vals =>
    simp only [blockCovered] at hb
    simp only [execBlock, hb, if_true]
    split
    · rfl
    · simp only [hbody]
  | vmTempSeq vals => rfl

/-- a patched `amp.temp_params` block (dict or sequence form) restores EVERYTHING as soon as its body restores
everything but the parameters: whatever `set_params` the body does is undone -/
theorem execBlock_absTemp_full (fx : Fix) (hfx : fx.absTemp = true) (E : Env) (b : Block)
    (hb : (∃ p, b = .absTemp p) ∨ (∃ vals, b = .absTempSeq vals)) (body : St → St × Bool)
    (hbody : ∀ t, UpTo t (body t).1) (s : St) :
    (execBlock fx E b body s).1 = s := by
  rcases hb with ⟨p, rfl⟩ | ⟨vals, rfl⟩
  · simp only [execBlock, hfx, if_true]
    split
    · rfl
    · exact (UpTo.trans (UpTo.setParams s _) (hbody _)).fix
  · simp only [execBlock, hfx, if_true]
    split
    · rfl
    · exact (UpTo.trans (UpTo.setParams s _) (hbody _)).fix

/-- every patched block restores everything but the parameters if its body does -/
theorem execBlock_upTo (fx : Fix) (E : Env) (b : Block) (hb : blockCovered fx b = true) (body : St → St × Bool)
    (hbody : ∀ t, UpTo t (body t).1) (s : St) :
    UpTo s (execBlock fx E b body s).1 := by
  cases b with
  | absTemp p => exact UpTo.of_eq (execBlock_absTemp_full fx hb E _ (Or.inl ⟨p, rfl⟩) body hbody s)
  | absTempSeq vals => exact UpTo.of_eq (execBlock_absTemp_full fx hb E _ (Or.inr ⟨vals, rfl⟩) body hbody s)
  | vmTempSeq vals => exact UpTo.refl s
  | vmTemp p =>
    simp only [blockCovered] at hb
    simp only [execBlock, hb, if_true]
    split
    · exact UpTo.refl s
    · split
      · exact UpTo.setParams s _
      · exact UpTo.trans (UpTo.trans (UpTo.setParams s _) (hbody _)) (UpTo.setParams _ _)
  | maskParams m =>
    simp only [blockCovered] at hb
    simp only [execBlock, hb, Bool.true_or, if_true]
    obtain ⟨h1, h2, h3, h4, h5, h6, h7⟩ := hbody { s with mask := m }
    exact ⟨rfl, h2, h3, h4, h5, h6, h7⟩
  | usedRes r =>
    simp only [blockCovered] at hb
    simp only [execBlock, hb, if_true]
    obtain ⟨h1, h2, h3, h4, h5, h6, h7⟩ := hbody (setUsedRes E s r)
    exact ⟨h1, rfl, rfl, h4, h5, h6, h7⟩
  | glsOne =>
    simp only [blockCovered] at hb
    simp only [execBlock, hb, Bool.true_or, if_true]
    obtain ⟨h1, h2, h3, h4, h5, h6, h7⟩ := hbody { s with maskFactor := s.maskFactor.map fun _ => true }
    exact ⟨h1, h2, h3, rfl, h5, h6, h7⟩
  | tempConfig k v =>
    simp only [blockCovered] at hb
    simp only [execBlock, hb, Bool.true_or, if_true]
    split
    · exact UpTo.refl s
    · rename_i h
      obtain ⟨h1, h2, h3, h4, h5, h6, h7⟩ := hbody { s with config := s.config.set k v }
      refine ⟨h1, h2, h3, h4, ?_, h6, h7⟩
      simp only [h5]
      exact set_set_back s.config k v h

theorem execBlock_fixed (E : Env) (b : Block) (body : St → St × Bool) (hbody : ∀ t, (body t).1 = t) (s : St) :
    (execBlock Fix.all E b body s).1 = s :=
  execBlock_covered Fix.all E b (by cases b <;> rfl) body hbody s

/-! ## the tree as it is: helpers for the fragment that restores -/

/-- `not_full` says what `set_used_chains` would say -/
def WF (E : Env) (s : St) : Prop := s.notFull = (s.chainsIdx.length != E.nChains)

def goodKeys (n : Nat) (p : List (Nat × PV)) : Prop := ∀ kv ∈ p, kv.1 < n ∧ ∃ v, kv.2 = PV.good v

theorem none_flags : Fix.none.absTemp = false ∧ Fix.none.vmTemp = false ∧ Fix.none.glsOne = false ∧
    Fix.none.tempConfig = false ∧ Fix.none.pw = false ∧ Fix.none.pwBase = false ∧ Fix.none.pwi = false ∧
    Fix.none.vmMask = false :=
  ⟨rfl, rfl, rfl, rfl, rfl, rfl, rfl, rfl⟩

theorem runSteps_nofault (E : Env) : ∀ (steps : List Step) (i : Nat) (s : St),
    (runSteps E none steps i s).2.1 = false := by
  intro steps
  induction steps with
  | nil => intro i s; rfl
  | cons st rest ih =>
    intro i s
    by_cases he : st = Step.eval
    · subst he; rw [runSteps_eval]; simp only [reduceCtorEq, if_false]; exact ih _ _
    · rw [runSteps_act E none st rest i s he]; exact ih _ _

theorem saveRunRestore_asis (E : Env) (steps : List Step) (s : St) (hwf : WF E s)
    (hm : ∀ st ∈ steps, st.isMask = false) (hl : ∀ st ∈ steps, st.isLs = false) :
    saveRunRestore false E none steps s = (s, false) := by
  unfold saveRunRestore
  have hk := runSteps_keeps E none steps 0 s hm hl
  have hr := runSteps_nofault E steps 0 s
  generalize runSteps E none steps 0 s = res at hk hr
  obtain ⟨s1, r, i⟩ := res
  simp only at hk hr
  subst hr
  simp only [Bool.false_eq_true, if_false, Prod.mk.injEq, and_true]
  obtain ⟨p1, p2, p3, p4, p5, p6⟩ := hk
  exact St.eq_of p1 p2 rfl (by simp [setUsedChains]; exact hwf.symm) p3 p4 p5 p6

theorem viewFrom_nil : ∀ (ps : List Val) (i : Nat), viewFrom [] ps i = ps := by
  intro ps
  induction ps with
  | nil => intro i; rfl
  | cons v vs ih => intro i; simp [viewFrom, lookup, ih]

theorem setAll_good (n : Nat) : ∀ (p : List (Nat × PV)), goodKeys n p → ∀ ps, (setAll p ps).2 = false := by
  intro p
  induction p with
  | nil => intro _ ps; rfl
  | cons kv rest ih =>
    intro h ps
    obtain ⟨k, pv⟩ := kv
    obtain ⟨_, v, hv⟩ := h (k, pv) List.mem_cons_self
    simp only at hv
    subst hv
    simp only [setAll]
    exact ih (fun kv hkv => h kv (List.mem_cons_of_mem _ hkv)) _

end TfPwaV.Override
