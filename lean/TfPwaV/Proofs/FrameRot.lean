import TfPwaV.Props.C01
import TfPwaV.Proofs.CascadeTree
/-!
Rotation covariance of the helicity-angle extractor (`templates/Cascade.lean.in`: `inferMomentum`, `chainBoost`,
`helicityAngle`, i.e. `cal_chain_boost` / `cal_helicity_angle`) — helper lemmas for `Props/C01b.lean`.

A rotation is any map `R : V3 → V3` that is linear and preserves dot and cross products (`IsRot`); the code's
degenerate-case fallback of `cross_unit` (`norm < 1e-14 → cross with 1 + other`) is NOT covariant, so the regular
branch is an explicit hypothesis (`ZReg`, `XReg`, `Reg`).
-/
open TfPwaV.ScalarR
namespace TfPwaV.FrameRot
open TfPwaV.KinR TfPwaV.AngleR TfPwaV.CascadeR TfPwaV.C01

/-- proper rotation of three-space: linear, preserves dot and cross products -/
structure IsRot (R : V3 → V3) : Prop where
  add : ∀ a b, R (a.add b) = (R a).add (R b)
  smul : ∀ (c : ℝ) a, R (V3.smul c a) = V3.smul c (R a)
  dot : ∀ a b, (R a).dot (R b) = a.dot b
  cross : ∀ a b, R (a.cross b) = (R a).cross (R b)

variable {R : V3 → V3}

theorem IsRot.norm2 (h : IsRot R) (a : V3) : (R a).norm2 = a.norm2 := h.dot a a

theorem IsRot.norm (h : IsRot R) (a : V3) : (R a).norm = a.norm := by
  unfold V3.norm; rw [h.norm2]

theorem unit_eq_smul (a : V3) : a.unit = V3.smul (1 / a.norm) a := by
  unfold V3.unit V3.smul
  ext <;> simp only <;> ring

theorem IsRot.unit (h : IsRot R) (a : V3) : (R a).unit = R a.unit := by
  rw [unit_eq_smul, unit_eq_smul, h.norm, h.smul]

theorem IsRot.neg (h : IsRot R) (a : V3) : R a.neg = (R a).neg := by
  have e : ∀ v : V3, v.neg = V3.smul (-1) v := by
    intro v; ext <;> simp [V3.neg, V3.smul]
  rw [e, e, h.smul]

/-- the regular branch of `cross_unit` -/
def CReg (a b : V3) : Prop := eps ≤ (a.cross b).norm

theorem crossUnit_reg (a b : V3) (h : CReg a b) : crossUnit a b = (a.cross b).unit := by
  unfold crossUnit
  simp only [if_neg (not_lt.mpr h)]

theorem IsRot.creg (h : IsRot R) {a b : V3} (hc : CReg a b) : CReg (R a) (R b) := by
  unfold CReg at *; rw [← h.cross, h.norm]; exact hc

theorem IsRot.crossUnit (h : IsRot R) {a b : V3} (hc : CReg a b) : crossUnit (R a) (R b) = R (crossUnit a b) := by
  rw [crossUnit_reg _ _ (h.creg hc), crossUnit_reg _ _ hc, ← h.cross, h.unit]

theorem IsRot.angleFrom (h : IsRot R) (v x y : V3) : angleFrom (R v) (R x) (R y) = angleFrom v x y := by
  unfold AngleR.angleFrom; rw [h.dot, h.dot]

/-- regular branch of the three `cross_unit` calls of `angle_zx_z_getx` that involve only `z1, z2` (β and the x axis
handed to the daughter) -/
def ZReg (z1 z2 : V3) : Prop :=
  CReg z1 z2 ∧ CReg (crossUnit z1 z2) z1 ∧ CReg (crossUnit z1 z2) z2.unit

/-- regular branch of the two `cross_unit` calls that involve the x axis (α only) -/
def XReg (z1 x1 : V3) : Prop := CReg z1 x1 ∧ CReg (crossUnit z1 x1) z1

/-- β and the new x axis do not depend on the x axis that was handed down (definitional) -/
theorem getx_beta_x_indep (z1 x1 x1' z2 : V3) :
    (angleZxZGetx z1 x1 z2).beta = (angleZxZGetx z1 x1' z2).beta ∧
    (angleZxZGetx z1 x1 z2).x2 = (angleZxZGetx z1 x1' z2).x2 := ⟨rfl, rfl⟩

/-- covariance of β and of the handed-down x axis: only the z axes have to co-rotate -/
theorem IsRot.getx_z (h : IsRot R) {z1 z2 : V3} (x1 x1' : V3) (hz : ZReg z1 z2) :
    (angleZxZGetx (R z1) x1' (R z2)).beta = (angleZxZGetx z1 x1 z2).beta ∧
    (angleZxZGetx (R z1) x1' (R z2)).x2 = R (angleZxZGetx z1 x1 z2).x2 := by
  obtain ⟨h1, h2, h3⟩ := hz
  simp only [angleZxZGetx]
  rw [h.crossUnit h1, h.crossUnit h2, h.unit, h.unit, h.angleFrom, h.crossUnit h3]
  exact ⟨rfl, rfl⟩

/-- full covariance of one `angle_zx_z_getx` step when all three vectors co-rotate -/
theorem IsRot.getx (h : IsRot R) {z1 x1 z2 : V3} (hz : ZReg z1 z2) (hx : XReg z1 x1) :
    (angleZxZGetx (R z1) (R x1) (R z2)).alpha = (angleZxZGetx z1 x1 z2).alpha := by
  obtain ⟨h1, h2, _⟩ := hz
  obtain ⟨g1, g2⟩ := hx
  simp only [angleZxZGetx]
  rw [h.crossUnit h1, h.crossUnit h2, h.crossUnit g1, h.crossUnit g2, h.angleFrom]

/-! ### four-vectors -/

theorem spatial_vect (R : V3 → V3) (p : V4) : (spatial R p).vect = R p.vect := by
  simp [spatial, V4.vect]

theorem spatial_t (R : V3 → V3) (p : V4) : (spatial R p).t = p.t := rfl

theorem v4_eq (p q : V4) (ht : p.t = q.t) (hv : p.vect = q.vect) : p = q := by
  cases p; cases q
  simp only [V4.vect, V3.mk.injEq] at hv
  obtain ⟨h1, h2, h3⟩ := hv
  simp only at ht
  subst ht h1 h2 h3
  rfl

theorem IsRot.spatial_add (h : IsRot R) (p q : V4) : spatial R (p.add q) = (spatial R p).add (spatial R q) := by
  apply v4_eq
  · rfl
  · rw [spatial_vect]
    have e : ∀ a b : V4, (a.add b).vect = a.vect.add b.vect := by intro a b; rfl
    rw [e, e, h.add, spatial_vect, spatial_vect]

theorem boost_vect (p : V4) (v : V3) :
    (p.boost v).vect = (p.vect.add (V3.smul (gamma2Of v.norm2 * v.dot p.vect) v)).add (V3.smul (gammaOf v.norm2 * p.t) v) := by
  simp only [V4.boost, V4.vect, V3.add, V3.smul]

/-- boosts commute with rotations: `R (boost p v) = boost (R p) (R v)` (every branch of the ε-guard) -/
theorem IsRot.boost (h : IsRot R) (p : V4) (v : V3) : spatial R (p.boost v) = (spatial R p).boost (R v) := by
  apply v4_eq
  · simp only [spatial_t, V4.boost, spatial_vect, h.norm2, h.dot]
  · rw [spatial_vect, boost_vect, boost_vect, h.add, h.add, h.smul, h.smul, spatial_vect, h.norm2, h.dot, spatial_t]

theorem IsRot.boostVector (h : IsRot R) (p : V4) : (spatial R p).boostVector = R p.boostVector := by
  have e : ∀ q : V4, q.boostVector = V3.smul (1 / q.t) q.vect := by
    intro q; unfold V4.boostVector V3.smul V4.vect; ext <;> simp only <;> ring
  rw [e, e, spatial_t, spatial_vect, h.smul]

theorem IsRot.restVector (h : IsRot R) (a b : V4) :
    (spatial R a).restVector (spatial R b) = spatial R (a.restVector b) := by
  unfold V4.restVector
  rw [h.boostVector, ← h.neg, ← h.boost]

theorem IsRot.mass (h : IsRot R) (p : V4) : (spatial R p).mass = p.mass := by
  have := TfPwaV.C11.rotation_minkowski R h.dot p p
  simp only at this
  unfold V4.mass V4.m2
  unfold spatial
  rw [this]

/-! ### trees -/

def PTree.mapP (f : V4 → V4) : PTree → PTree
  | .leaf p => .leaf (f p)
  | .node p a b => .node (f p) (PTree.mapP f a) (PTree.mapP f b)

/-- rotate the stored rest-frame momenta of an `RTree` (masses are scalars) -/
def RTree.mapR (f : V4 → V4) : RTree → RTree
  | .leaf m => .leaf m
  | .node m r1 r2 a b => .node m (f r1) (f r2) (RTree.mapR f a) (RTree.mapR f b)

theorem mapP_p (f : V4 → V4) (T : PTree) : (PTree.mapP f T).p = f T.p := by cases T <;> rfl

theorem IsRot.total (h : IsRot R) (t : MTree) : (t.map (spatial R)).total = spatial R t.total :=
  TfPwaV.C11.total_map (spatial R) h.spatial_add t

theorem IsRot.infer (h : IsRot R) : ∀ t : MTree, inferMomentum (t.map (spatial R)) = PTree.mapP (spatial R) (inferMomentum t)
  | .leaf p => rfl
  | .node a b => by
    simp only [MTree.map, inferMomentum, PTree.mapP]
    rw [h.infer a, h.infer b, h.total a, h.total b, h.spatial_add]

/-- `cal_chain_boost` commutes with a common rotation, for every pair of boost compositions that commute with it -/
theorem IsRot.chainBoost (h : IsRot R) : ∀ (T : PTree) (g g' : V4 → V4), (∀ q, g' (spatial R q) = spatial R (g q)) →
    chainBoost (PTree.mapP (spatial R) T) g' = RTree.mapR (spatial R) (chainBoost T g)
  | .leaf p, g, g', _ => by simp only [PTree.mapP, CascadeR.chainBoost, RTree.mapR, h.mass]
  | .node p d1 d2, g, g', hg => by
    simp only [PTree.mapP, CascadeR.chainBoost, RTree.mapR, mapP_p, hg, h.mass]
    rw [h.chainBoost d1 (fun q => (g d1.p).restVector (g q)) _ (fun q => by simp only [hg, h.restVector]),
      h.chainBoost d2 (fun q => (g d2.p).restVector (g q)) _ (fun q => by simp only [hg, h.restVector])]

theorem IsRot.calChainBoost (h : IsRot R) (t : MTree) :
    calChainBoost (t.map (spatial R)) = RTree.mapR (spatial R) (calChainBoost t) := by
  unfold CascadeR.calChainBoost
  simp only [h.infer, mapP_p]
  exact h.chainBoost _ _ _ (fun q => h.restVector _ _)

/-- the regular branch of every `cross_unit` call of `cal_helicity_angle` below (and at) a vertex with axes `z, x` -/
def Reg : RTree → V3 → V3 → Prop
  | .leaf _, _, _ => True
  | .node _ r1 r2 d1 d2, z, x =>
    XReg z x ∧ ZReg z r1.vect ∧ ZReg z r2.vect ∧
    Reg d1 r1.vect (angleZxZGetx z x r1.vect).x2 ∧ Reg d2 r2.vect (angleZxZGetx z x r2.vect).x2

/-- regular branch of the calls that do not involve the x axis handed to this vertex -/
def RegZ : RTree → V3 → V3 → Prop
  | .leaf _, _, _ => True
  | .node _ r1 r2 d1 d2, z, x =>
    ZReg z r1.vect ∧ ZReg z r2.vect ∧
    Reg d1 r1.vect (angleZxZGetx z x r1.vect).x2 ∧ Reg d2 r2.vect (angleZxZGetx z x r2.vect).x2

/-- **co-rotating axes**: every angle of the subtree is unchanged -/
theorem IsRot.helicityAngle (h : IsRot R) : ∀ (t : RTree) (z x : V3), Reg t z x →
    helicityAngle (RTree.mapR (spatial R) t) (R z) (R x) = helicityAngle t z x
  | .leaf _, _, _, _ => rfl
  | .node m r1 r2 d1 d2, z, x, hr => by
    obtain ⟨hx, hz1, hz2, hd1, hd2⟩ := hr
    simp only [RTree.mapR, CascadeR.helicityAngle, spatial_vect]
    rw [h.getx hz1 hx, h.getx hz2 hx, (h.getx_z x (R x) hz1).1, (h.getx_z x (R x) hz2).1,
      (h.getx_z x (R x) hz1).2, (h.getx_z x (R x) hz2).2, h.helicityAngle d1 _ _ hd1, h.helicityAngle d2 _ _ hd2]

/-- forget the two azimuths of the root vertex -/
def forgetAlpha : ATree → ATree
  | .leaf m => .leaf m
  | .node m _ b1 _ b2 d1 d2 => .node m 0 b1 0 b2 d1 d2

/-- **only the z axis co-rotates** (the x axis handed down is arbitrary on both sides): both polar angles of this
vertex and every angle of every vertex below it are unchanged; only the two azimuths of this vertex may differ -/
theorem IsRot.helicityAngle_z (h : IsRot R) (t : RTree) (z x x' : V3) (hr : RegZ t z x) :
    forgetAlpha (CascadeR.helicityAngle (RTree.mapR (spatial R) t) (R z) x') = forgetAlpha (CascadeR.helicityAngle t z x) := by
  cases t with
  | leaf m => rfl
  | node m r1 r2 d1 d2 =>
    obtain ⟨hz1, hz2, hd1, hd2⟩ := hr
    simp only [RTree.mapR, CascadeR.helicityAngle, spatial_vect, forgetAlpha]
    rw [(h.getx_z x x' hz1).1, (h.getx_z x x' hz2).1, (h.getx_z x x' hz1).2, (h.getx_z x x' hz2).2,
      h.helicityAngle d1 _ _ hd1, h.helicityAngle d2 _ _ hd2]

end TfPwaV.FrameRot
