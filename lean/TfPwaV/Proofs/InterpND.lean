import TfPwaV.Gen.InterpNDR
import Mathlib.Tactic.Linarith
import Mathlib.Tactic.NormNum
import Mathlib.Tactic.Ring
import Mathlib.Tactic.FieldSimp
import Mathlib.Data.List.Forall2
import Mathlib.Algebra.BigOperators.Group.List.Basic
/-! Helper lemmas for C20: `InterpND` / `InterpNDHist` (ℝ-instance of `templates/InterpND.lean.in`). -/
open TfPwaV.ScalarR
namespace TfPwaV.InterpNDR

-- 1. coordinates ---------------------------------------------------------------------------------------

theorem unitCoord_range (b : Nat) (u : ℝ) (h0 : 0 ≤ u) (h1 : u ≤ 1) :
    0 ≤ unitCoord b (ksqrt u) ∧ unitCoord b (ksqrt u) ≤ 1 := by
  have hs0 : 0 ≤ ksqrt u := Real.sqrt_nonneg u
  have hs1 : ksqrt u ≤ 1 := by
    unfold ksqrt; rw [show (1 : ℝ) = Real.sqrt 1 by simp]; exact Real.sqrt_le_sqrt h1
  unfold unitCoord
  split
  · constructor <;> linarith
  · constructor <;> linarith
  · constructor <;> simp

theorem affine_range (y lo hi : ℝ) (h0 : 0 ≤ y) (h1 : y ≤ 1) (h : lo ≤ hi) :
    lo ≤ y * (hi - lo) + lo ∧ y * (hi - lo) + lo ≤ hi := by
  constructor <;> nlinarith

/-- every coordinate of the point lies between the edges `x[i] ≤ · ≤ x[i+1]` of the selected cell -/
def InCell : List (List ℝ) → List Nat → List ℝ → Prop
  | x :: xs, i :: is, y :: ys => x.getD i 0 ≤ y ∧ y ≤ x.getD (i + 1) 0 ∧ InCell xs is ys
  | [], _, [] => True
  | _, _, _ => False

/-- every coordinate lies between the first and the last node of its axis -/
def InRange : List (List ℝ) → List ℝ → Prop
  | x :: xs, y :: ys => x.getD 0 0 ≤ y ∧ y ≤ x.getD (x.length - 1) 0 ∧ InRange xs ys
  | [], [] => True
  | _, _ => False

/-- the decoded cell is a cell of the grid with ordered edges -/
def CellOK : List (List ℝ) → List Nat → Prop
  | x :: xs, i :: is => i + 1 < x.length ∧ x.getD i 0 ≤ x.getD (i + 1) 0 ∧ CellOK xs is
  | [], [] => True
  | _, _ => False

theorem genCoords_inCell : ∀ (xs : List (List ℝ)) (is bs : List Nat) (us : List ℝ),
    CellOK xs is → bs.length = xs.length → us.length = xs.length → (∀ u ∈ us, 0 ≤ u ∧ u ≤ 1) →
    InCell xs is (genCoords xs is bs us) := by
  intro xs
  induction xs with
  | nil =>
    intro is bs us _ _ _ _
    simp [genCoords, InCell]
  | cons x xs ih =>
    intro is bs us hc hb hu hr
    cases is with
    | nil => simp [CellOK] at hc
    | cons i is =>
      cases bs with
      | nil => simp at hb
      | cons b bs =>
        cases us with
        | nil => simp at hu
        | cons u us =>
          obtain ⟨_, hle, hrest⟩ := hc
          obtain ⟨h0, h1⟩ := hr u (by simp)
          obtain ⟨y0, y1⟩ := unitCoord_range b u h0 h1
          obtain ⟨a1, a2⟩ := affine_range _ _ _ y0 y1 hle
          simp only [genCoords, InCell]
          exact ⟨a1, a2, ih is bs us hrest (by simpa using hb) (by simpa using hu)
            (fun u' hu' => hr u' (List.mem_cons_of_mem _ hu'))⟩

theorem histCoords_inCell : ∀ (xs : List (List ℝ)) (is : List Nat) (us : List ℝ),
    CellOK xs is → us.length = xs.length → (∀ u ∈ us, 0 ≤ u ∧ u ≤ 1) →
    InCell xs is (histCoords xs is us) := by
  intro xs
  induction xs with
  | nil => intro is us _ _ _; simp [histCoords, InCell]
  | cons x xs ih =>
    intro is us hc hu hr
    cases is with
    | nil => simp [CellOK] at hc
    | cons i is =>
      cases us with
      | nil => simp at hu
      | cons u us =>
        obtain ⟨_, hle, hrest⟩ := hc
        obtain ⟨h0, h1⟩ := hr u (by simp)
        obtain ⟨a1, a2⟩ := affine_range _ _ _ h0 h1 hle
        simp only [histCoords, InCell]
        exact ⟨a1, a2, ih is us hrest (by simpa using hu) (fun u' hu' => hr u' (List.mem_cons_of_mem _ hu'))⟩

theorem sorted_getD_le (x : List ℝ) (hs : x.Pairwise (· ≤ ·)) (i j : Nat) (hij : i ≤ j) (hj : j < x.length) :
    x.getD i 0 ≤ x.getD j 0 := by
  have hi : i < x.length := lt_of_le_of_lt hij hj
  rw [List.getD_eq_getElem?_getD, List.getD_eq_getElem?_getD, List.getElem?_eq_getElem hi,
    List.getElem?_eq_getElem hj]
  simp only [Option.getD_some]
  rcases Nat.eq_or_lt_of_le hij with h | h
  · subst h; exact le_refl _
  · exact List.pairwise_iff_getElem.mp hs i j hi hj h

theorem inCell_inRange : ∀ (xs : List (List ℝ)) (is : List Nat) (ys : List ℝ),
    (∀ x ∈ xs, x.Pairwise (· ≤ ·)) → CellOK xs is → InCell xs is ys → InRange xs ys := by
  intro xs
  induction xs with
  | nil =>
    intro is ys _ _ h
    cases ys with
    | nil => trivial
    | cons _ _ => simp [InCell] at h
  | cons x xs ih =>
    intro is ys hs hc h
    cases is with
    | nil => simp [CellOK] at hc
    | cons i is =>
      cases ys with
      | nil => simp [InCell] at h
      | cons y ys =>
        obtain ⟨hlt, _, hcr⟩ := hc
        obtain ⟨h1, h2, h3⟩ := h
        have hx := hs x (by simp)
        have a := sorted_getD_le x hx 0 i (Nat.zero_le _) (by omega)
        have b := sorted_getD_le x hx (i + 1) (x.length - 1) (by omega) (by omega)
        exact ⟨by linarith, by linarith, ih is ys (fun x' hx' => hs x' (List.mem_cons_of_mem _ hx')) hcr h3⟩

-- decoding ------------------------------------------------------------------------------------------------

theorem decodeRev_spec : ∀ (ns : List Nat) (b : Nat), (∀ n ∈ ns, 0 < n) →
    List.Forall₂ (fun i n => i < n) (decodeRev ns b) ns := by
  intro ns
  induction ns with
  | nil => intro b _; exact List.Forall₂.nil
  | cons n ns ih =>
    intro b h
    exact List.Forall₂.cons (Nat.mod_lt _ (h n (by simp))) (ih _ (fun m hm => h m (List.mem_cons_of_mem _ hm)))

theorem decode_spec (counts : List Nat) (b : Nat) (h : ∀ n ∈ counts, 0 < n) :
    List.Forall₂ (fun i n => i < n) (decode counts b) counts := by
  have := decodeRev_spec counts.reverse b (fun n hn => h n (List.mem_reverse.mp hn))
  have h2 := List.forall₂_reverse_iff.mpr this
  simpa [decode] using h2

theorem cellOK_of_decode : ∀ (xs : List (List ℝ)) (is : List Nat),
    (∀ x ∈ xs, x.Pairwise (· ≤ ·)) →
    List.Forall₂ (fun i n => i < n) is (xs.map fun x => x.length - 1) → CellOK xs is := by
  intro xs
  induction xs with
  | nil => intro is _ h; cases h; trivial
  | cons x xs ih =>
    intro is hs h
    cases h with
    | cons h1 h2 =>
      rename_i i is'
      have hx := hs x (by simp)
      simp only at h1
      exact ⟨by omega, sorted_getD_le x hx i (i + 1) (Nat.le_succ _) (by omega),
        ih _ (fun x' hx' => hs x' (List.mem_cons_of_mem _ hx')) h2⟩

/-- axes are non-decreasing with at least two nodes -/
def GridOK (g : Grid) : Prop := ∀ x ∈ g.xs, x.Pairwise (· ≤ ·) ∧ 2 ≤ x.length

theorem cellOK_decode (g : Grid) (hg : GridOK g) (b : Nat) : CellOK g.xs (decode g.counts b) := by
  apply cellOK_of_decode g.xs _ (fun x hx => (hg x hx).1)
  apply decode_spec
  intro n hn
  simp only [Grid.counts, List.mem_map] at hn
  obtain ⟨x, hx, rfl⟩ := hn
  have := (hg x hx).2
  omega


-- corner numbering -------------------------------------------------------------------------------------------

/-- binary digits of `p`, most significant first, `n` of them -/
def bitsOf : Nat → Nat → List Nat
  | 0, _ => []
  | n + 1, p => (p / 2 ^ n) :: bitsOf n (p % 2 ^ n)

theorem paths_spec : ∀ (n : Nat) (bits : List Nat), bits ∈ paths n →
    bits.length = n ∧ coeffIndex bits < 2 ^ n ∧ bitsOf n (coeffIndex bits) = bits := by
  intro n
  induction n with
  | zero => intro bits h; simp [paths] at h; subst h; simp [coeffIndex, bitsOf]
  | succ n ih =>
    intro bits h
    simp only [paths, List.mem_append, List.mem_map] at h
    have hpos : 0 < 2 ^ n := Nat.pos_of_ne_zero (by positivity)
    rcases h with ⟨bs, hbs, rfl⟩ | ⟨bs, hbs, rfl⟩
    · obtain ⟨h1, h2, h3⟩ := ih bs hbs
      refine ⟨by simp [h1], ?_, ?_⟩
      · simp only [coeffIndex, h1]; rw [pow_succ]; omega
      · simp only [coeffIndex, h1, bitsOf, Nat.zero_mul, Nat.zero_add]
        rw [Nat.div_eq_of_lt h2, Nat.mod_eq_of_lt h2, h3]
    · obtain ⟨h1, h2, h3⟩ := ih bs hbs
      refine ⟨by simp [h1], ?_, ?_⟩
      · simp only [coeffIndex, h1]; rw [pow_succ]; omega
      · simp only [coeffIndex, h1, bitsOf, Nat.one_mul]
        have e1 : (2 ^ n + coeffIndex bs) / 2 ^ n = 1 := by
          rw [Nat.add_div_left _ hpos, Nat.div_eq_of_lt h2]
        have e2 : (2 ^ n + coeffIndex bs) % 2 ^ n = coeffIndex bs := by
          rw [Nat.add_mod_left, Nat.mod_eq_of_lt h2]
        rw [e1, e2, h3]

theorem bitsOf_spec : ∀ (n p : Nat), p < 2 ^ n → bitsOf n p ∈ paths n ∧ coeffIndex (bitsOf n p) = p := by
  intro n
  induction n with
  | zero => intro p h; simp at h; subst h; simp [bitsOf, paths, coeffIndex]
  | succ n ih =>
    intro p h
    have hpos : 0 < 2 ^ n := Nat.pos_of_ne_zero (by positivity)
    have hr : p % 2 ^ n < 2 ^ n := Nat.mod_lt _ hpos
    obtain ⟨h1, h2⟩ := ih (p % 2 ^ n) hr
    have hlen := (paths_spec n _ h1).1
    have hq : p / 2 ^ n < 2 := by
      rw [Nat.div_lt_iff_lt_mul hpos]; rw [pow_succ] at h; omega
    have hdm := Nat.div_add_mod p (2 ^ n)
    simp only [bitsOf, paths, List.mem_append, List.mem_map, coeffIndex, hlen, h2]
    constructor
    · have hq' : p / 2 ^ n = 0 ∨ p / 2 ^ n = 1 := by
        revert hq; generalize p / 2 ^ n = q; intro hq; omega
      rcases hq' with e | e
      · left; exact ⟨_, h1, by rw [e]⟩
      · right; exact ⟨_, h1, by rw [e]⟩
    · rw [Nat.mul_comm]; exact hdm

/-- `self.coeffs[p]` is the row written for the product tuple whose binary number is `p` -/
theorem lookupCoeff_eq (n p : Nat) (h : p < 2 ^ n) : lookupCoeff n p = bitsOf n p := by
  obtain ⟨hm, hc⟩ := bitsOf_spec n p h
  unfold lookupCoeff
  cases hf : (paths n).reverse.find? (fun bits => coeffIndex bits == p) with
  | none =>
    have := List.find?_eq_none.mp hf (bitsOf n p) (List.mem_reverse.mpr hm)
    simp [hc] at this
  | some x =>
    have hx := List.find?_some hf
    have hmem := List.mem_reverse.mp (List.mem_of_find?_eq_some hf)
    simp only [beq_iff_eq] at hx
    have := (paths_spec n x hmem).2.2
    rw [hx] at this
    simp [this]

theorem paths_length (n : Nat) : (paths n).length = 2 ^ n := by
  induction n with
  | zero => rfl
  | succ n ih => simp [paths, ih, pow_succ]; omega

/-- the `p`-th tuple of `itertools.product` (the corner whose value fills row `p` of `int_all`) is `bitsOf n p` -/
theorem paths_get : ∀ (n p : Nat), p < 2 ^ n → (paths n)[p]? = some (bitsOf n p) := by
  intro n
  induction n with
  | zero => intro p h; simp at h; subst h; simp [paths, bitsOf]
  | succ n ih =>
    intro p h
    have hpos : 0 < 2 ^ n := Nat.pos_of_ne_zero (by positivity)
    have hl := paths_length n
    simp only [paths, bitsOf]
    by_cases hp : p < 2 ^ n
    · rw [List.getElem?_append_left (by simp [hl, hp]), List.getElem?_map, ih p hp]
      simp [Nat.div_eq_of_lt hp, Nat.mod_eq_of_lt hp]
    · have hp' : 2 ^ n ≤ p := not_lt.mp hp
      have hlt : p - 2 ^ n < 2 ^ n := by rw [pow_succ] at h; omega
      rw [List.getElem?_append_right (by simp [hl, hp']), List.length_map, hl, List.getElem?_map, ih _ hlt]
      have e1 : p / 2 ^ n = 1 := by
        have : p = 2 ^ n + (p - 2 ^ n) := by omega
        rw [this, Nat.add_div_left _ hpos, Nat.div_eq_of_lt hlt]
      have e2 : p % 2 ^ n = p - 2 ^ n := by
        have : p = 2 ^ n + (p - 2 ^ n) := by omega
        rw [this, Nat.add_mod_left, Nat.mod_eq_of_lt hlt]; omega
      simp [e1, e2]

theorem lookupCoeff_length (n p : Nat) : (lookupCoeff n p).length = n := by
  unfold lookupCoeff
  cases hf : (paths n).reverse.find? (fun bits => coeffIndex bits == p) with
  | none => simp
  | some x =>
    have hmem := List.mem_reverse.mp (List.mem_of_find?_eq_some hf)
    simpa using (paths_spec n x hmem).1

-- cumulative table ------------------------------------------------------------------------------------------

/-- `digitize(x, cumsum(l)[:-1])` returns the entry whose cumulative interval contains `x` -/
theorem select_spec : ∀ (l : List ℝ) (c x : ℝ) (k0 : Nat), l ≠ [] → c ≤ x → x < total l c →
    ∃ j, select l c x k0 = k0 + j ∧ j < l.length ∧ c + (l.take j).sum ≤ x ∧
      x < c + (l.take j).sum + l.getD j 0 := by
  intro l
  induction l with
  | nil => intro c x k0 h; exact absurd rfl h
  | cons w r ih =>
    intro c x k0 _ hc hx
    cases r with
    | nil =>
      simp only [total] at hx
      exact ⟨0, by simp [select], by simp, by simpa using hc, by simpa using hx⟩
    | cons w' r' =>
      by_cases hsel : x < c + w
      · exact ⟨0, by simp [select, hsel], by simp, by simpa using hc, by simpa using hsel⟩
      · simp only [total] at hx
        obtain ⟨j, h1, h2, h3, h4⟩ := ih (c + w) x (k0 + 1) (by simp) (not_lt.mp hsel) (by simpa [total] using hx)
        refine ⟨j + 1, ?_, by simp at h2 ⊢; omega, ?_, ?_⟩
        · simp only [select, if_neg hsel, h1]; omega
        · simp only [List.take_succ_cons, List.sum_cons]; linarith
        · simp only [List.take_succ_cons, List.sum_cons, List.getD_cons_succ]; linarith

theorem flatMap_range_length (a m : Nat) (f : Nat → Nat → ℝ) :
    ((List.range a).flatMap fun p => (List.range m).map (f p)).length = a * m := by
  induction a with
  | zero => simp
  | succ a ih =>
    rw [List.range_succ, List.flatMap_append, List.length_append, ih]
    simp [Nat.succ_mul]

/-- the flattened `(corner, cell)` table: entry number `p * n_bins + c` is `int_all[p][cell c]` -/
theorem flatMap_range_getD (a m : Nat) (f : Nat → Nat → ℝ) (p c : Nat) (hp : p < a) (hc : c < m) :
    ((List.range a).flatMap fun p => (List.range m).map (f p)).getD (p * m + c) 0 = f p c := by
  induction a with
  | zero => omega
  | succ a ih =>
    rw [List.range_succ, List.flatMap_append]
    have hl := flatMap_range_length a m f
    rw [List.getD_eq_getElem?_getD]
    by_cases hpa : p < a
    · have hlt : p * m + c < a * m := by
        calc p * m + c < p * m + m := by omega
          _ = (p + 1) * m := by ring
          _ ≤ a * m := Nat.mul_le_mul_right m hpa
      rw [List.getElem?_append_left (by rw [hl]; exact hlt), ← List.getD_eq_getElem?_getD]
      exact ih hpa
    · have hpe : p = a := by omega
      subst hpe
      rw [List.getElem?_append_right (by rw [hl]; omega), hl]
      simp [hc]

theorem sum_getD_range : ∀ l : List ℝ, ((List.range l.length).map fun p => l.getD p 0).sum = l.sum := by
  intro l
  induction l with
  | nil => simp
  | cons a l ih =>
    rw [List.length_cons, List.range_succ_eq_map, List.map_cons, List.map_map, List.sum_cons, List.sum_cons]
    simp only [List.getD_cons_zero]
    congr 1

theorem sum_map_div_mul (l : List Nat) (f : Nat → ℝ) (K v : ℝ) :
    (l.map fun p => f p / K * v).sum = (l.map f).sum / K * v := by
  induction l with
  | nil => simp
  | cons a l ih => simp only [List.map_cons, List.sum_cons, ih]; ring

theorem cornerVals_length (g : Grid) (cell : List Nat) : (cornerVals g cell).length = 2 ^ g.nDim := by
  simp [cornerVals, paths_length]

/-- the weights of the `2^n` corners of one cell add up to (mean corner value) × (cell volume) -/
theorem cell_weight (g : Grid) (c : Nat) :
    ((List.range (2 ^ g.nDim)).map fun p => entry g p c).sum =
      (cornerVals g (decode g.counts c)).sum / kofNat (2 ^ g.nDim) * vol g (decode g.counts c) := by
  unfold entry
  rw [sum_map_div_mul (List.range (2 ^ g.nDim)) (fun p => (cornerVals g (decode g.counts c)).getD p 0)]
  rw [← cornerVals_length g (decode g.counts c), sum_getD_range]

end TfPwaV.InterpNDR
