import TfPwaV.Proofs.AxesIndBMkD
/-!
Helper lemmas for `Props/C01j.lean`: the PHASES of one decay chain under a change of the base axes, as numbers.

* `ph m θ = e^{i (m/2) θ}` for a DOUBLED helicity `m ∈ ℤ` (a `zpow` of `uph θ = e^{iθ/2}`), the common form of `FrameAlg.phase`,
  `rowPhase`, `colPhase`; `ph` of an angle depends on the ELEMENT `Rotation_z(θ)` only (`ph_of_signM`: the other sheet gives the sign
  `sgnPow (−1) m`).
* `CTree`: a decay tree with particle ids and doubled spins; `CTree.spinOK` (decidable): at every vertex
  `2j_core ≡ 2j_b + 2j_c (mod 2)`; `sign_rule`: `s^{2j_R} = Π_{finals f below R} s^{2j_f}` for `s = ±1`, by structural induction.
* `SideOK`, `side_all`, `tree_phases_cancel`: the row factors of one chain (any depth) and the column factor of its top vertex
  multiply to the product of the column phases of the reference elements of the final particles.
-/
open TfPwaV.ScalarR
namespace TfPwaV.AxesInd
open TfPwaV.SU2R TfPwaV.AlignR TfPwaV.C12 TfPwaV.C02 TfPwaV.C01 TfPwaV.FrameAlg TfPwaV.AmpR TfPwaV.LineShapeR

/-! ### the phase of a doubled helicity -/

noncomputable def uph (θ : ℝ) : ℂ := Complex.exp (((θ / 2 : ℝ) : ℂ) * Complex.I)

/-- `e^{i (m/2) θ}`, `m` a doubled helicity -/
noncomputable def ph (m : Int) (θ : ℝ) : ℂ := uph θ ^ m

theorem uph_ne (θ : ℝ) : uph θ ≠ 0 := Complex.exp_ne_zero _

theorem ph_ne (m : Int) (θ : ℝ) : ph m θ ≠ 0 := zpow_ne_zero _ (uph_ne θ)

theorem ph_add (m n : Int) (θ : ℝ) : ph (m + n) θ = ph m θ * ph n θ := zpow_add₀ (uph_ne θ) m n

theorem ph_sub (m n : Int) (θ : ℝ) : ph (m - n) θ = ph m θ / ph n θ := zpow_sub₀ (uph_ne θ) m n

theorem uph_neg (θ : ℝ) : uph (-θ) = (uph θ)⁻¹ := by
  unfold uph
  rw [← Complex.exp_neg]
  congr 1
  push_cast
  ring

theorem ph_neg (m : Int) (θ : ℝ) : ph m (-θ) = (ph m θ)⁻¹ := by
  unfold ph
  rw [uph_neg, inv_zpow]

theorem uph_zero : uph 0 = 1 := by unfold uph; simp

theorem ph_zero_angle (m : Int) : ph m 0 = 1 := by unfold ph; rw [uph_zero, one_zpow]

theorem phase_eq_ph (N : ℕ) (θ : ℝ) (i : Fin (N + 1)) : FrameAlg.phase N θ i = ph (hel2 N i) θ := by
  unfold FrameAlg.phase ph uph
  rw [← Complex.exp_int_mul]
  congr 1
  unfold hel hel2
  push_cast
  ring

theorem rowPhase_eq_ph (N : ℕ) (θ : ℝ) (i : Fin (N + 1)) : rowPhase N θ (hel2 N i) = ph (hel2 N i) θ := by
  rw [rowPhase_hel2, phase_eq_ph]

theorem colPhase_eq_ph (N : ℕ) (θ : ℝ) (δ : Int) (hd : δ.natAbs ≤ N) (hp : (δ + (N : Int)) % 2 = 0) :
    colPhase N θ δ = ph δ θ := by
  unfold colPhase
  rw [dif_pos hd, phase_eq_ph]
  congr 1
  unfold hel2
  simp only
  omega

theorem uph_eq (θ : ℝ) : uph θ = ⟨Real.cos (θ / 2), Real.sin (θ / 2)⟩ := by
  unfold uph
  apply Complex.ext
  · exact Complex.exp_ofReal_mul_I_re _
  · exact Complex.exp_ofReal_mul_I_im _

theorem uph_of_rotZ (θ θ' : ℝ) (h : rotZ θ = rotZ θ') : uph θ = uph θ' := by
  rw [rotZ_eq, rotZ_eq] at h
  have h1 := congrArg (fun m : M2 => m.x11.re) h
  have h2 := congrArg (fun m : M2 => m.x11.im) h
  simp only at h1 h2
  rw [uph_eq, uph_eq, h1, h2]

theorem uph_of_rotZ_neg (θ θ' : ℝ) (h : rotZ θ = negOne.mul (rotZ θ')) : uph θ = -uph θ' := by
  rw [rotZ_eq, rotZ_eq] at h
  have h1 := congrArg (fun m : M2 => m.x11.re) h
  have h2 := congrArg (fun m : M2 => m.x11.im) h
  simp [negOne, M2.mul, SU2R.Cx.mul, SU2R.Cx.add, SU2R.Cx.zero] at h1 h2
  rw [uph_eq, uph_eq, h1, h2]
  apply Complex.ext <;> simp


theorem uph_add (θ φ : ℝ) : uph (θ + φ) = uph θ * uph φ := by
  unfold uph
  rw [← Complex.exp_add]
  congr 1
  push_cast
  ring

theorem ph_add_angle (m : Int) (θ φ : ℝ) : ph m (θ + φ) = ph m θ * ph m φ := by
  unfold ph
  rw [uph_add, mul_zpow]

theorem normSq_uph (θ : ℝ) : Complex.normSq (uph θ) = 1 := by
  rw [uph_eq, Complex.normSq_mk]
  have := Real.sin_sq_add_cos_sq (θ / 2)
  nlinarith

theorem normSq_ph (m : Int) (θ : ℝ) : Complex.normSq (ph m θ) = 1 := by
  unfold ph
  rw [map_zpow₀, normSq_uph, one_zpow]

theorem normSq_prod_ph {α : Type} (l : List α) (f : α → Int) (g : α → ℝ) :
    Complex.normSq ((l.map fun x => ph (f x) (g x)).prod) = 1 := by
  induction l with
  | nil => simp
  | cons x r ih => simp only [List.map_cons, List.prod_cons, map_mul, ih, normSq_ph, mul_one]


/-- `s^m` for `s = ±1` through the parity of `m` -/
def sgnPow (s : ℂ) (m : Int) : ℂ := if m % 2 = 0 then 1 else s

theorem sgnPow_congr (s : ℂ) (a b : Int) (h : a % 2 = b % 2) : sgnPow s a = sgnPow s b := by
  unfold sgnPow; rw [h]

theorem sgnPow_one (m : Int) : sgnPow 1 m = 1 := by unfold sgnPow; split_ifs <;> rfl

theorem sgnPow_add (s : ℂ) (hs : s * s = 1) (a b : Int) : sgnPow s (a + b) = sgnPow s a * sgnPow s b := by
  unfold sgnPow
  rcases Int.emod_two_eq_zero_or_one a with ha | ha <;> rcases Int.emod_two_eq_zero_or_one b with hb | hb
  · have : (a + b) % 2 = 0 := by omega
    simp [ha, hb, this]
  · have : (a + b) % 2 = 1 := by omega
    simp [ha, hb, this]
  · have : (a + b) % 2 = 1 := by omega
    simp [ha, hb, this]
  · have : (a + b) % 2 = 0 := by omega
    simp [ha, hb, this, hs]

theorem sgnPow_sq (s : ℂ) (hs : s * s = 1) (a : Int) : sgnPow s a * sgnPow s a = 1 := by
  unfold sgnPow; split_ifs
  · simp
  · exact hs

theorem neg_zpow_sgn (u : ℂ) (m : ℤ) : (-u) ^ m = sgnPow (-1) m * u ^ m := by
  unfold sgnPow
  rcases Int.even_or_odd m with h | h
  · rw [Even.neg_zpow h, if_pos (Int.even_iff.mp h), one_mul]
  · rw [Odd.neg_zpow h, if_neg (by rw [Int.odd_iff.mp h]; decide)]
    ring

/-- a sheet: `+1` or `−1` in SU(2) and as a number -/
def signM (e : Bool) : M2 := if e then negOne else M2.one
def signC (e : Bool) : ℂ := if e then -1 else 1

theorem signC_sq (e : Bool) : signC e * signC e = 1 := by cases e <;> simp [signC]

/-- the phase of an angle depends on the ELEMENT `Rotation_z(θ)`; the other sheet costs `(−1)^m` -/
theorem ph_of_signM (e : Bool) (θ θ' : ℝ) (h : rotZ θ = (signM e).mul (rotZ θ')) (m : Int) :
    ph m θ = sgnPow (signC e) m * ph m θ' := by
  unfold ph
  cases e
  · simp only [signM, signC, Bool.false_eq_true, if_false] at h ⊢
    rw [M2.one_mul] at h
    rw [uph_of_rotZ θ θ' h, sgnPow_one, one_mul]
  · simp only [signM, signC, if_true] at h ⊢
    rw [uph_of_rotZ_neg θ θ' h, neg_zpow_sgn]

theorem ph_of_rotZ (θ θ' : ℝ) (h : rotZ θ = rotZ θ') (m : Int) : ph m θ = ph m θ' := by
  unfold ph; rw [uph_of_rotZ θ θ' h]

theorem ph_of_rotZ_one (θ : ℝ) (h : rotZ θ = M2.one) (m : Int) : ph m θ = 1 := by
  rw [ph_of_rotZ θ 0 (by rw [h, rotZ_zero]) m, ph_zero_angle]

theorem ph_of_rotZ_sign (e : Bool) (θ : ℝ) (h : rotZ θ = signM e) (m : Int) : ph m θ = sgnPow (signC e) m := by
  rw [ph_of_signM e θ 0 (by rw [h, rotZ_zero, M2.mul_one]) m, ph_zero_angle, mul_one]

/-! ### decay trees with spins: the sign rule -/

/-- a decay tree: particle id and doubled spin at every node -/
inductive CTree where
  | fin (id N : Nat)
  | dec (id N : Nat) (d1 d2 : CTree)

def CTree.id : CTree → Nat
  | .fin i _ => i
  | .dec i _ _ _ => i

def CTree.N : CTree → Nat
  | .fin _ N => N
  | .dec _ N _ _ => N

/-- **`SpinOK`** (decidable): at every vertex `2j_core ≡ 2j_b + 2j_c (mod 2)` — angular-momentum conservation of the decay card -/
def CTree.spinOK : CTree → Bool
  | .fin _ _ => true
  | .dec _ N d1 d2 => (N + d1.N + d2.N) % 2 == 0 && d1.spinOK && d2.spinOK

/-- the final particles `(id, 2j)` below (or at) a node, in leaf order -/
def CTree.finals : CTree → List (Nat × Nat)
  | .fin i N => [(i, N)]
  | .dec _ _ d1 d2 => d1.finals ++ d2.finals

/-- the decaying particles `(id, 2j)` below (or at) a node, in pre-order -/
def CTree.decs : CTree → List (Nat × Nat)
  | .fin _ _ => []
  | .dec i N d1 d2 => (i, N) :: (d1.decs ++ d2.decs)

/-- **the sign rule**: `s^{2j_R} = Π_{finals f below R} s^{2j_f}` for `s² = 1`, every tree with `spinOK` -/
theorem sign_rule (s : ℂ) (hs : s * s = 1) (t : CTree) (h : t.spinOK = true) :
    sgnPow s (t.N : Int) = (t.finals.map fun f => sgnPow s (f.2 : Int)).prod := by
  induction t with
  | fin i N => simp [CTree.finals, CTree.N]
  | dec i N d1 d2 ih1 ih2 =>
    simp only [CTree.spinOK, Bool.and_eq_true, beq_iff_eq] at h
    obtain ⟨⟨hp, h1⟩, h2⟩ := h
    simp only [CTree.finals, CTree.N, List.map_append, List.prod_append]
    rw [← ih1 h1, ← ih2 h2, ← sgnPow_add s hs]
    apply sgnPow_congr
    omega

/-! ### the row factors of one side of a chain -/

/-- the row angles of the side of the chain below a daughter `t` of the top particle, whose own element is `W = Rotation_z(ω)` and
whose sheet is `s`: `Θ` = angle of the row factor of a vertex (by id of the decaying particle), `θa` = angle of the row factor of
the alignment D-function of a final particle -/
def SideOK (ω : ℝ) (s : ℂ) (Θ θa : Nat → ℝ) : CTree → Prop
  | .fin f _ => ∀ m, ph m (θa f) = ph m (-ω)
  | .dec a _ d1 d2 => (∀ m, ph m (Θ a) = sgnPow s m * ph m (-ω)) ∧
      (∀ d ∈ d1.decs ++ d2.decs, ∀ m, ph m (Θ d.1) = 1) ∧
      (∀ f ∈ d1.finals ++ d2.finals, ∀ m, ph m (θa f.1) = sgnPow s m)

/-- all row factors of one side, every final particle counted as aligned -/
noncomputable def rowAll (Θ θa : Nat → ℝ) (h : Nat → Int) (t : CTree) : ℂ :=
  (t.decs.map fun d => ph (h d.1) (Θ d.1)).prod * (t.finals.map fun f => ph (h f.1) (θa f.1)).prod

theorem side_all (s : ℂ) (hs : s * s = 1) (ω : ℝ) (Θ θa : Nat → ℝ) (h : Nat → Int) (t : CTree) (hok : t.spinOK = true)
    (hS : SideOK ω s Θ θa t) (hpar : ∀ x ∈ t.decs ++ t.finals, h x.1 % 2 = (x.2 : Int) % 2) :
    rowAll Θ θa h t = ph (h t.id) (-ω) := by
  cases t with
  | fin f N =>
    simp only [rowAll, CTree.decs, CTree.finals, CTree.id, List.map_nil, List.prod_nil, List.map_cons, List.prod_cons, one_mul,
      mul_one]
    exact hS _
  | dec a N d1 d2 =>
    obtain ⟨h1, h2, h3⟩ := hS
    have e2 : ((d1.decs ++ d2.decs).map fun d => ph (h d.1) (Θ d.1)).prod = 1 := by
      apply List.prod_eq_one
      intro x hx
      obtain ⟨d, hd, rfl⟩ := List.mem_map.mp hx
      exact h2 d hd _
    have e3 : ((d1.finals ++ d2.finals).map fun f => ph (h f.1) (θa f.1)) =
        (d1.finals ++ d2.finals).map fun f => sgnPow s (f.2 : Int) := by
      apply List.map_congr_left
      intro f hf
      rw [h3 f hf]
      apply sgnPow_congr
      apply hpar
      simp only [CTree.decs, CTree.finals, List.mem_append, List.mem_cons]
      exact Or.inr (List.mem_append.mp hf)
    have e4 := sign_rule s hs (.dec a N d1 d2) hok
    simp only [CTree.finals, CTree.N] at e4
    have e5 : sgnPow s (h a) = sgnPow s (N : Int) := by
      apply sgnPow_congr
      exact hpar (a, N) (by simp [CTree.decs])
    simp only [rowAll, CTree.decs, CTree.finals, CTree.id, List.map_cons, List.prod_cons]
    rw [e2, e3, ← e4, h1, e5, mul_one]
    have := sgnPow_sq s hs (N : Int)
    calc sgnPow s (N : Int) * ph (h a) (-ω) * sgnPow s (N : Int)
        = (sgnPow s (N : Int) * sgnPow s (N : Int)) * ph (h a) (-ω) := by ring
      _ = ph (h a) (-ω) := by rw [this, one_mul]

theorem filter_prod (al : Nat → Bool) (G K : Nat × Nat → ℂ) (l : List (Nat × Nat))
    (h : ∀ f ∈ l, al f.1 = false → G f * K f = 1) :
    ((l.filter fun f => al f.1).map G).prod * ((l.filter fun f => al f.1).map K).prod = (l.map G).prod * (l.map K).prod := by
  induction l with
  | nil => simp
  | cons x r ih =>
    have ih' := ih (fun f hf => h f (List.mem_cons_of_mem _ hf))
    by_cases hx : al x.1 = true
    · simp only [List.filter_cons, hx, if_true, List.map_cons, List.prod_cons]
      calc G x * ((r.filter fun f => al f.1).map G).prod * (K x * ((r.filter fun f => al f.1).map K).prod)
          = G x * K x * (((r.filter fun f => al f.1).map G).prod * ((r.filter fun f => al f.1).map K).prod) := by ring
        _ = G x * K x * ((r.map G).prod * (r.map K).prod) := by rw [ih']
        _ = _ := by ring
    · have hx' : al x.1 = false := by simpa using hx
      have hx1 := h x (List.mem_cons_self ..) hx'
      simp only [List.filter_cons, hx', Bool.false_eq_true, if_false, List.map_cons, List.prod_cons]
      rw [ih']
      calc (r.map G).prod * (r.map K).prod = G x * K x * ((r.map G).prod * (r.map K).prod) := by rw [hx1, one_mul]
        _ = _ := by ring

/-- **`tree_phases_cancel`** — one chain `top → b c` with decay trees `tb`, `tc` (ANY depth) below the two daughters, `spinOK`; a
helicity configuration `h` (contracted indices) and external helicities `ext` with the parities of the spins; own elements
`Rotation_z(γ1)`, `Rotation_z(γ2)` of the two daughters with `Rotation_z(γ2) = Rotation_z(−γ1)` (`hγ`); sheets `sb`, `sc`; row
angles as in `SideOK`; `φ f` = angle of the reference element of the final particle `f` (column phase); a final particle that is NOT
aligned in this chain (the chain is its reference) has `h f = ext f` and row·column phase one.  Then the column phase of the top
vertex, all row phases and the column phases of the aligned finals multiply to `Π_{ALL finals} ph (ext f) (φ f)`. -/
theorem tree_phases_cancel (sb sc : ℂ) (hsb : sb * sb = 1) (hsc : sc * sc = 1) (γ1 γ2 : ℝ) (hγ : ∀ m, ph m (-γ2) = ph m γ1)
    (Θ θa φ : Nat → ℝ) (al : Nat → Bool) (tb tc : CTree) (hokb : tb.spinOK = true) (hokc : tc.spinOK = true)
    (hSb : SideOK γ1 sb Θ θa tb) (hSc : SideOK γ2 sc Θ θa tc) (h ext : Nat → Int)
    (hparb : ∀ x ∈ tb.decs ++ tb.finals, h x.1 % 2 = (x.2 : Int) % 2)
    (hparc : ∀ x ∈ tc.decs ++ tc.finals, h x.1 % 2 = (x.2 : Int) % 2)
    (href : ∀ f ∈ tb.finals ++ tc.finals, al f.1 = false →
      h f.1 = ext f.1 ∧ ph (ext f.1) (θa f.1) * ph (ext f.1) (φ f.1) = 1) :
    ph (h tb.id - h tc.id) γ1 * ((tb.decs ++ tc.decs).map fun d => ph (h d.1) (Θ d.1)).prod *
        (((tb.finals ++ tc.finals).filter fun f => al f.1).map fun f => ph (h f.1) (θa f.1)).prod *
        (((tb.finals ++ tc.finals).filter fun f => al f.1).map fun f => ph (ext f.1) (φ f.1)).prod =
      ((tb.finals ++ tc.finals).map fun f => ph (ext f.1) (φ f.1)).prod := by
  have hf := filter_prod al (fun f => ph (h f.1) (θa f.1)) (fun f => ph (ext f.1) (φ f.1)) (tb.finals ++ tc.finals)
    (fun f hf ha => by
      obtain ⟨e, e'⟩ := href f hf ha
      simp only [e]; exact e')
  have eb := side_all sb hsb γ1 Θ θa h tb hokb hSb hparb
  have ec := side_all sc hsc γ2 Θ θa h tc hokc hSc hparc
  rw [hγ] at ec
  unfold rowAll at eb ec
  rw [mul_assoc, hf]
  simp only [List.map_append, List.prod_append] at eb ec ⊢
  have hne1 := ph_ne (h tb.id) γ1
  have hne2 := ph_ne (h tc.id) γ1
  rw [ph_neg] at eb
  rw [ph_sub]
  set Db := (tb.decs.map fun d => ph (h d.1) (Θ d.1)).prod
  set Dc := (tc.decs.map fun d => ph (h d.1) (Θ d.1)).prod
  set Fb := (tb.finals.map fun f => ph (h f.1) (θa f.1)).prod
  set Fc := (tc.finals.map fun f => ph (h f.1) (θa f.1)).prod
  set Kb := (tb.finals.map fun f => ph (ext f.1) (φ f.1)).prod
  set Kc := (tc.finals.map fun f => ph (ext f.1) (φ f.1)).prod
  calc ph (h tb.id) γ1 / ph (h tc.id) γ1 * (Db * Dc) * (Fb * Fc * (Kb * Kc))
      = ph (h tb.id) γ1 / ph (h tc.id) γ1 * (Db * Fb) * (Dc * Fc) * (Kb * Kc) := by ring
    _ = ph (h tb.id) γ1 / ph (h tc.id) γ1 * (ph (h tb.id) γ1)⁻¹ * ph (h tc.id) γ1 * (Kb * Kc) := by rw [eb, ec]
    _ = Kb * Kc := by field_simp

end TfPwaV.AxesInd
