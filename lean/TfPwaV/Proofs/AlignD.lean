import TfPwaV.Model.Align
/-! Helper lemmas for the discrete clause of C02 (`Model/Align.lean`): what each loop of `aligned_angle_ref_rule1`
does to a lookup in `set_x`; membership in the key lists.  Core Lean only. -/
set_option linter.unusedSimpArgs false
namespace TfPwaV.Align

/-- `if b then some v else none` -/
def optIf (b : Bool) (v : Nat) : Option Nat := if b then some v else none

theorem optIf_or (a b : Bool) (v : Nat) : (optIf a v).or (optIf b v) = optIf (a || b) v := by
  cases a <;> cases b <;> simp [optIf]

/-- inner loop of pass 1: an existing entry is kept; a missing one is set to `idx` iff the particle is one of the
daughters and a final particle of the group -/
theorem lookup_addOuts (outs : List Nat) (idx : Nat) (is : List Nat) (m : RefMap) (j : Nat) :
    (addOuts outs idx m is).lookup j = (m.lookup j).or (optIf (is.contains j && outs.contains j) idx) := by
  unfold optIf
  induction is generalizing m with
  | nil => simp [addOuts]
  | cons i is ih =>
    rw [addOuts, ih]
    by_cases hji : j = i
    · subst hji
      cases hm : m.lookup j <;> cases ho : outs.contains j <;> simp [hm, ho, List.lookup_append, List.lookup_cons]
    · have h1 : (j == i) = false := by simpa using hji
      split <;> simp [List.lookup_append, List.lookup_cons, h1, hji]

theorem producedAtTop_cons (top j : Nat) (d : Decay) (ds : Chain) :
    producedAtTop top j (d :: ds) = ((d.core == top && d.outs.contains j) || producedAtTop top j ds) := by
  simp [producedAtTop]

/-- one chain of pass 1 -/
theorem lookup_pass1Chain (top : Nat) (outs : List Nat) (idx : Nat) (c : Chain) (m : RefMap) (j : Nat) :
    (pass1Chain top outs idx m c).lookup j =
      (m.lookup j).or (optIf (producedAtTop top j c && outs.contains j) idx) := by
  induction c generalizing m with
  | nil => simp [pass1Chain, producedAtTop, optIf]
  | cons d ds ih =>
    rw [pass1Chain, ih, producedAtTop_cons]
    by_cases hc : (d.core == top) = true
    · rw [if_pos hc, lookup_addOuts, Option.or_assoc, optIf_or]
      rw [hc, Bool.true_and]
      congr 2
      cases d.outs.contains j <;> cases producedAtTop top j ds <;> cases outs.contains j <;> rfl
    · have hc' : (d.core == top) = false := by simpa using hc
      simp [hc']

/-- **pass 1**: an entry present before is kept; otherwise a final particle gets the index of the FIRST chain (in list
order) in which it is a daughter of the top particle -/
theorem lookup_pass1From (top : Nat) (outs : List Nat) (cs : List Chain) (idx : Nat) (m : RefMap) (j : Nat) :
    (pass1From top outs idx m cs).lookup j =
      (m.lookup j).or (if outs.contains j then (cs.findIdx? (producedAtTop top j)).map (· + idx) else none) := by
  induction cs generalizing idx m with
  | nil => simp [pass1From]
  | cons c cs ih =>
    rw [pass1From, ih, lookup_pass1Chain, Option.or_assoc, List.findIdx?_cons]
    congr 1
    cases ho : outs.contains j <;> cases hp : producedAtTop top j c <;> simp [optIf, ho, hp]
    · cases List.findIdx? (producedAtTop top j) cs <;> simp; omega

/-! #### pass 2 -/

theorem lk_eq (a b : Nat) (m : RefMap) : List.lookup a ((a, b) :: m) = some b := by
  simp [List.lookup_cons]

theorem lk_ne (j a b : Nat) (m : RefMap) (h : j ≠ a) : List.lookup j ((a, b) :: m) = List.lookup j m := by
  have : (j == a) = false := by simpa using h
  simp [List.lookup_cons, this]

theorem lookup_map_setKey (i k j : Nat) (m : RefMap) :
    (m.map fun p => if p.1 == i then (i, k) else p).lookup j =
      if j == i then (m.lookup i).map (fun _ => k) else m.lookup j := by
  induction m with
  | nil => simp
  | cons p m ih =>
    obtain ⟨a, b⟩ := p
    rw [List.map_cons]
    by_cases hai : a = i
    · subst hai
      simp only [beq_self_eq_true, if_true]
      by_cases hja : j = a
      · subst hja; rw [lk_eq, lk_eq]; simp
      · have hb : (j == a) = false := by simpa using hja
        rw [lk_ne _ _ _ _ hja, lk_ne _ _ _ _ hja, ih]
        simp [hb]
    · have h1 : (a == i) = false := by simpa using hai
      simp only [h1, Bool.false_eq_true, if_false]
      by_cases hja : j = a
      · subst hja
        rw [lk_eq, lk_eq, h1]; simp
      · rw [lk_ne _ _ _ _ hja, lk_ne _ _ _ _ hja, ih]
        by_cases hji : j = i
        · subst hji
          rw [lk_ne _ _ _ _ (fun h => hai h.symm)]
        · have : (j == i) = false := by simpa using hji
          simp [this]

/-- Python dict assignment -/
theorem lookup_setKey (m : RefMap) (i k j : Nat) :
    (setKey m i k).lookup j = if j == i then some k else m.lookup j := by
  unfold setKey
  split
  · rename_i h
    rw [lookup_map_setKey]
    obtain ⟨v, hv⟩ := Option.isSome_iff_exists.mp h
    simp [hv]
  · rename_i h
    have hn : m.lookup i = none := Option.not_isSome_iff_eq_none.mp h
    rw [List.lookup_append]
    by_cases hji : j = i
    · subst hji; simp [hn]
    · have : (j == i) = false := by simpa using hji
      simp [this]

theorem lookup_pass2Outs (i : Nat) (js : List Nat) (m : RefMap) (j : Nat) :
    (pass2Outs i m js).lookup j = if j == i && js.contains i then some 0 else m.lookup j := by
  induction js generalizing m with
  | nil => simp [pass2Outs]
  | cons x js ih =>
    rw [pass2Outs, ih]
    by_cases hx : i = x
    · subst hx
      simp only [beq_self_eq_true, if_true, lookup_setKey, List.contains_cons, Bool.true_or, Bool.and_true]
      split <;> simp_all
    · have h1 : (i == x) = false := by simpa using hx
      simp [h1, hx, List.contains_cons]

theorem produced_cons (i : Nat) (d : Decay) (ds : Chain) :
    produced i (d :: ds) = (d.outs.contains i || produced i ds) := by
  simp [produced]

theorem lookup_pass2Chain (i : Nat) (c : Chain) (m : RefMap) (j : Nat) :
    (pass2Chain i m c).lookup j = if j == i && produced i c then some 0 else m.lookup j := by
  induction c generalizing m with
  | nil => simp [pass2Chain, produced]
  | cons d ds ih =>
    rw [pass2Chain, ih, lookup_pass2Outs, produced_cons]
    cases (j == i) <;> cases d.outs.contains i <;> cases produced i ds <;> simp

/-- **pass 2** with a non-empty chain list: entries are kept; a missing final particle that occurs in the first chain
gets index 0 -/
theorem pass2_cons (c0 : Chain) (cs : List Chain) (is : List Nat) (m : RefMap) :
    ∃ m', pass2 (c0 :: cs) m is = some m' ∧
      ∀ j, m'.lookup j = (m.lookup j).or (optIf (is.contains j && produced j c0) 0) := by
  induction is generalizing m with
  | nil => exact ⟨m, rfl, fun j => by simp [optIf]⟩
  | cons i is ih =>
    rw [pass2]
    split
    · rename_i h
      obtain ⟨m', h1, h2⟩ := ih m
      refine ⟨m', h1, fun j => ?_⟩
      rw [h2]
      by_cases hji : j = i
      · subst hji
        obtain ⟨v, hv⟩ := Option.isSome_iff_exists.mp h
        simp [hv]
      · have : (i == j) = false := by simpa using fun h => hji h.symm
        simp [List.contains_cons, this, hji]
    · rename_i h
      have hn : m.lookup i = none := Option.not_isSome_iff_eq_none.mp h
      obtain ⟨m', h1, h2⟩ := ih (pass2Chain i m c0)
      refine ⟨m', h1, fun j => ?_⟩
      rw [h2, lookup_pass2Chain]
      by_cases hji : j = i
      · subst hji
        cases hp : produced j c0 <;> simp [hn, hp, optIf]
      · have h3 : (j == i) = false := by simpa using hji
        simp [h3, List.contains_cons, hji]

theorem mapM_some {α β : Type} (f : α → Option β) (g : α → β) (l : List α) (h : ∀ a ∈ l, f a = some (g a)) :
    l.mapM f = some (l.map g) := by
  induction l with
  | nil => rfl
  | cons a l ih =>
    rw [List.mapM_cons, h a (by simp), ih (fun b hb => h b (by simp [hb]))]
    rfl

/-! #### which entries receive an aligned angle -/

theorem mem_alignedKeysFrom (outs : List Nat) (ref : Nat → Option Nat) (chains : List Chain) (start : Nat)
    (k n i : Nat) :
    (k, n, i) ∈ alignedKeysFrom outs ref start chains ↔
      ∃ c d, start ≤ k ∧ chains[k - start]? = some c ∧ c[n]? = some d ∧ i ∈ d.outs ∧ i ∈ outs ∧ ref i ≠ some k := by
  induction chains generalizing start with
  | nil => simp [alignedKeysFrom]
  | cons c cs ih =>
    rw [alignedKeysFrom, List.mem_append, ih]
    constructor
    · rintro (h | ⟨c', d, h1, h2, h3⟩)
      · simp only [List.mem_flatMap, List.mem_map, List.mem_filter, Prod.exists] at h
        obtain ⟨d, n', hdn, i', ⟨hi1, hi2⟩, heq⟩ := h
        simp only [Prod.mk.injEq] at heq
        obtain ⟨rfl, rfl, rfl⟩ := heq
        have := List.mem_zipIdx_iff_getElem?.mp hdn
        refine ⟨c, d, Nat.le_refl _, by simp, by simpa using this, hi1, ?_⟩
        simpa using hi2
      · refine ⟨c', d, by omega, ?_, h3⟩
        have : k - start = (k - (start + 1)) + 1 := by omega
        rw [this]; simpa using h2
    · rintro ⟨c', d, h1, h2, h3, h4, h5, h6⟩
      by_cases hk : k = start
      · subst hk
        left
        simp only [Nat.sub_self, List.getElem?_cons_zero, Option.some.injEq] at h2
        subst h2
        simp only [List.mem_flatMap, List.mem_map, List.mem_filter, Prod.exists]
        refine ⟨d, n, List.mem_zipIdx_iff_getElem?.mpr (by simpa using h3), i, ⟨h4, ?_⟩, rfl⟩
        simp [h5, h6]
      · right
        refine ⟨c', d, by omega, ?_, h3, h4, h5, h6⟩
        have : k - start = (k - (start + 1)) + 1 := by omega
        rw [this] at h2; simpa using h2

/-! #### `only_left_angle` -/

theorem mem_readKeys (chains : List Chain) (k n i : Nat) :
    (k, n, i) ∈ readKeys chains ↔ ∃ c d, chains[k]? = some c ∧ c[n]? = some d ∧ d.outs[0]? = some i := by
  simp only [readKeys, List.mem_flatMap, List.mem_filterMap, Prod.exists, Option.map_eq_some_iff]
  constructor
  · rintro ⟨c, k', hc, d, n', hd, i', hi, heq⟩
    simp only [Prod.mk.injEq] at heq
    obtain ⟨rfl, rfl, rfl⟩ := heq
    exact ⟨c, d, by simpa using List.mem_zipIdx_iff_getElem?.mp hc, by simpa using List.mem_zipIdx_iff_getElem?.mp hd, hi⟩
  · rintro ⟨c, d, hc, hd, hi⟩
    exact ⟨c, k, List.mem_zipIdx_iff_getElem?.mpr (by simpa using hc), d, n, List.mem_zipIdx_iff_getElem?.mpr (by simpa using hd), i, hi, rfl⟩

theorem mem_deletedKeys (chains : List Chain) (k n i : Nat) :
    (k, n, i) ∈ deletedKeys chains ↔ ∃ c d, chains[k]? = some c ∧ c[n]? = some d ∧ d.outs[1]? = some i := by
  simp only [deletedKeys, List.mem_flatMap, List.mem_filterMap, Prod.exists, Option.map_eq_some_iff]
  constructor
  · rintro ⟨c, k', hc, d, n', hd, i', hi, heq⟩
    simp only [Prod.mk.injEq] at heq
    obtain ⟨rfl, rfl, rfl⟩ := heq
    exact ⟨c, d, by simpa using List.mem_zipIdx_iff_getElem?.mp hc, by simpa using List.mem_zipIdx_iff_getElem?.mp hd, hi⟩
  · rintro ⟨c, d, hc, hd, hi⟩
    exact ⟨c, k, List.mem_zipIdx_iff_getElem?.mpr (by simpa using hc), d, n, List.mem_zipIdx_iff_getElem?.mpr (by simpa using hd), i, hi, rfl⟩

end TfPwaV.Align
