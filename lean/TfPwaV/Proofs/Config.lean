import TfPwaV.Model.Config
/-! Helper lemmas for C19 (core Lean only). -/
namespace TfPwaV.Config

/-! ### `cross_combine` on the lists `chain_decay` feeds it -/

theorem crossCombine_single (a : List Chain) : crossCombine [a] = a := by
  simp [crossCombine]

theorem crossCombine_pair (a b : List Chain) (hb : b ≠ []) :
    crossCombine [a, b] = a.flatMap fun i => b.map fun j => i ++ j := by
  have : b.isEmpty = false := by cases b <;> simp_all
  simp [crossCombine, this]

theorem flatMap_map_ne_nil {α β γ : Type} (a : List α) (b : List β) (f : α → β → γ) (ha : a ≠ []) (hb : b ≠ []) :
    (a.flatMap fun i => b.map fun j => f i j) ≠ [] := by
  cases a with
  | nil => exact absurd rfl ha
  | cons x xs => cases b with
    | nil => exact absurd rfl hb
    | cons y ys => simp

/-- closed form of `ret_tmp` + `cross_combine` for one two-body decay -/
theorem combine_eq (d : BDecay) (a b : List Chain) :
    combine d a b =
      if a = [] then (if b = [] then [[d]] else b.map fun j => d :: j)
      else (if b = [] then a.map fun i => d :: i else a.flatMap fun i => b.map fun j => d :: (i ++ j)) := by
  unfold combine
  by_cases ha : a = [] <;> by_cases hb : b = []
  · subst ha; subst hb; simp [crossCombine]
  · subst ha
    have : b.isEmpty = false := by cases b <;> simp_all
    simp [crossCombine, this, hb]
  · subst hb
    have : a.isEmpty = false := by cases a <;> simp_all
    simp [crossCombine, this, ha]
  · have h1 : a.isEmpty = false := by cases a <;> simp_all
    have h2 : b.isEmpty = false := by cases b <;> simp_all
    have h3 := flatMap_map_ne_nil a b (fun i j => i ++ j) ha hb
    have h4 : (a.flatMap fun i => b.map fun j => i ++ j).isEmpty = false := by
      cases h : (a.flatMap fun i => b.map fun j => i ++ j) with
      | nil => exact absurd h h3
      | cons _ _ => rfl
    simp only [h1, h2, Bool.false_eq_true, if_false, ha, hb, List.cons_append, List.nil_append]
    rw [show crossCombine [[[d]], a, b] = ([[d]] : List Chain).flatMap (fun i =>
        if (crossCombine [a, b]).isEmpty then [i] else (crossCombine [a, b]).map fun j => i ++ j) from rfl]
    rw [crossCombine_pair a b hb]
    simp only [h4, Bool.false_eq_true, if_false, List.flatMap_cons, List.flatMap_nil, List.append_nil, List.map_flatMap,
      List.map_map]
    rfl

/-- a sub-result of `chain_decay` as seen by the mother: one of the chains, or nothing if there is none -/
def Pick (a : List Chain) (ca : Chain) : Prop := ca ∈ a ∨ (a = [] ∧ ca = [])

theorem mem_combine (d : BDecay) (a b : List Chain) (c : Chain) :
    c ∈ combine d a b ↔ ∃ ca cb, Pick a ca ∧ Pick b cb ∧ c = d :: (ca ++ cb) := by
  rw [combine_eq]
  unfold Pick
  by_cases ha : a = [] <;> by_cases hb : b = []
  · subst ha; subst hb; simp
  · rw [if_pos ha, if_neg hb, List.mem_map]
    constructor
    · rintro ⟨j, hj, rfl⟩; exact ⟨[], j, Or.inr ⟨ha, rfl⟩, Or.inl hj, rfl⟩
    · rintro ⟨ca, cb, h1, h2, rfl⟩
      rcases h1 with h1 | ⟨_, rfl⟩
      · rw [ha] at h1; simp at h1
      · rcases h2 with h2 | ⟨h2, _⟩
        · exact ⟨cb, h2, rfl⟩
        · exact absurd h2 hb
  · rw [if_neg ha, if_pos hb, List.mem_map]
    constructor
    · rintro ⟨i, hi, rfl⟩; exact ⟨i, [], Or.inl hi, Or.inr ⟨hb, rfl⟩, by simp⟩
    · rintro ⟨ca, cb, h1, h2, rfl⟩
      rcases h2 with h2 | ⟨_, rfl⟩
      · rw [hb] at h2; simp at h2
      · rcases h1 with h1 | ⟨h1, _⟩
        · exact ⟨ca, h1, by simp⟩
        · exact absurd h1 ha
  · rw [if_neg ha, if_neg hb]
    simp only [List.mem_flatMap, List.mem_map]
    constructor
    · rintro ⟨i, hi, j, hj, rfl⟩; exact ⟨i, j, Or.inl hi, Or.inl hj, rfl⟩
    · rintro ⟨ca, cb, h1, h2, rfl⟩
      rcases h1 with h1 | ⟨h1, _⟩
      · rcases h2 with h2 | ⟨h2, _⟩
        · exact ⟨ca, h1, cb, h2, rfl⟩
        · exact absurd h2 hb
      · exact absurd h1 ha

theorem combine_ne_nil (d : BDecay) (a b : List Chain) : combine d a b ≠ [] := by
  rw [combine_eq]
  by_cases ha : a = [] <;> by_cases hb : b = []
  · simp [ha, hb]
  · simp [ha, hb]
  · simp [ha, hb]
  · simp only [ha, hb, if_false]
    exact flatMap_map_ne_nil a b (fun i j => d :: (i ++ j)) ha hb

theorem overDecays_some (f : Name → Option (List Chain)) (ds : List BDecay) (r : List Chain)
    (h : overDecays f ds = some r) :
    (r = [] ↔ ds = []) ∧
    (∀ c, c ∈ r ↔ ∃ d ∈ ds, ∃ a b, f d.o1 = some a ∧ f d.o2 = some b ∧ c ∈ combine d a b) := by
  induction ds generalizing r with
  | nil => simp [overDecays] at h; subst h; simp
  | cons d ds ih =>
    unfold overDecays at h
    split at h
    · rename_i a b r' h1 h2 h3
      simp only [Option.some.injEq] at h
      subst h
      obtain ⟨_, ih2⟩ := ih r' h3
      refine ⟨?_, ?_⟩
      · simp [combine_ne_nil]
      · intro c
        simp only [List.mem_append, List.mem_cons, ih2]
        constructor
        · rintro (hc | ⟨d', hd', a', b', e1, e2, hc⟩)
          · exact ⟨d, Or.inl rfl, a, b, h1, h2, hc⟩
          · exact ⟨d', Or.inr hd', a', b', e1, e2, hc⟩
        · rintro ⟨d', hd' | hd', a', b', e1, e2, hc⟩
          · subst hd'
            rw [h1] at e1; rw [h2] at e2
            simp only [Option.some.injEq] at e1 e2
            subst e1; subst e2
            exact Or.inl hc
          · exact Or.inr ⟨d', hd', a', b', e1, e2, hc⟩
    · simp at h

/-! ### decay trees -/

inductive DTree where
  | leaf (n : Name)
  | node (d : BDecay) (l r : DTree)

namespace DTree
def root : DTree → Name
  | leaf n => n
  | node d _ _ => d.core
def chain : DTree → Chain
  | leaf _ => []
  | node d l r => d :: (l.chain ++ r.chain)
def leaves : DTree → List Name
  | leaf n => [n]
  | node _ l r => l.leaves ++ r.leaves
def depth : DTree → Nat
  | leaf _ => 0
  | node _ l r => max l.depth r.depth + 1
/-- every node is one of the registered decays and the subtrees hang on its two daughters;
a leaf is a particle that has no registered decay -/
def WF (regs : List BDecay) : DTree → Prop
  | leaf n => decaysOf regs n = []
  | node d l r => d ∈ regs ∧ l.root = d.o1 ∧ r.root = d.o2 ∧ l.WF regs ∧ r.WF regs
end DTree

theorem mem_decaysOf (regs : List BDecay) (x : Name) (d : BDecay) :
    d ∈ decaysOf regs x ↔ d ∈ regs ∧ d.core = x := by
  simp [decaysOf, List.mem_filter]

/-- soundness and completeness of `chain_decay` within the recursion budget:
the result lists exactly the chains of the well-formed trees below `x` -/
theorem chainDecay_spec (regs : List BDecay) :
    ∀ (n : Nat) (x : Name) (cs : List Chain), chainDecay regs n x = some cs →
      (cs = [] ↔ decaysOf regs x = []) ∧
      (∀ c, Pick cs c ↔ ∃ t : DTree, t.WF regs ∧ t.root = x ∧ t.chain = c ∧ t.depth ≤ n) := by
  intro n
  induction n with
  | zero =>
    intro x cs h
    unfold chainDecay at h
    split at h
    · rename_i he
      simp only [Option.some.injEq] at h
      subst h
      have he' : decaysOf regs x = [] := by simpa using he
      refine ⟨by simp [he'], ?_⟩
      intro c
      constructor
      · rintro (h | ⟨_, rfl⟩)
        · simp at h
        · exact ⟨.leaf x, he', rfl, rfl, Nat.le_refl _⟩
      · rintro ⟨t, hwf, hr, hc, hd⟩
        cases t with
        | leaf n => exact Or.inr ⟨rfl, hc.symm⟩
        | node d l r => simp [DTree.depth] at hd
    · simp at h
  | succ n ih =>
    intro x cs h
    unfold chainDecay at h
    obtain ⟨h1, h2⟩ := overDecays_some _ _ _ h
    refine ⟨h1, ?_⟩
    intro c
    constructor
    · rintro (hc | ⟨hcs, rfl⟩)
      · obtain ⟨d, hd, a, b, ea, eb, hc⟩ := (h2 c).1 hc
        rw [mem_combine] at hc
        obtain ⟨ca, cb, pa, pb, rfl⟩ := hc
        obtain ⟨tl, wl, rl, cl, dl⟩ := ((ih _ _ ea).2 ca).1 pa
        obtain ⟨tr, wr, rr, cr, dr⟩ := ((ih _ _ eb).2 cb).1 pb
        rw [mem_decaysOf] at hd
        refine ⟨.node d tl tr, ⟨hd.1, rl, rr, wl, wr⟩, hd.2, by simp [DTree.chain, cl, cr], ?_⟩
        simp only [DTree.depth]
        omega
      · exact ⟨.leaf x, h1.1 hcs, rfl, rfl, Nat.zero_le _⟩
    · rintro ⟨t, hwf, hr, hc, hd⟩
      cases t with
      | leaf m =>
        simp only [DTree.root] at hr
        subst hr
        exact Or.inr ⟨h1.2 hwf, hc.symm⟩
      | node d l r =>
        obtain ⟨hreg, hl, hrr, wl, wr⟩ := hwf
        simp only [DTree.root] at hr
        simp only [DTree.depth] at hd
        have hd' : d ∈ decaysOf regs x := (mem_decaysOf _ _ _).2 ⟨hreg, hr⟩
        -- the sub-results exist because the whole result does
        have hsome : ∀ ds, overDecays (chainDecay regs n) ds ≠ none → ∀ d ∈ ds,
            (chainDecay regs n d.o1).isSome ∧ (chainDecay regs n d.o2).isSome := by
          intro ds
          induction ds with
          | nil => intro _ d hd; simp at hd
          | cons e es ihs =>
            intro hne d hd
            unfold overDecays at hne
            split at hne
            · rename_i a b r' e1 e2 e3
              rcases List.mem_cons.1 hd with rfl | hd
              · simp [e1, e2]
              · exact ihs (by rw [e3]; simp) d hd
            · exact absurd rfl hne
        obtain ⟨sa, sb⟩ := hsome _ (by rw [h]; simp) d hd'
        obtain ⟨a, ea⟩ := Option.isSome_iff_exists.1 sa
        obtain ⟨b, eb⟩ := Option.isSome_iff_exists.1 sb
        left
        rw [h2 c]
        refine ⟨d, hd', a, b, ea, eb, ?_⟩
        rw [mem_combine]
        refine ⟨l.chain, r.chain, ?_, ?_, by rw [← hc]; rfl⟩
        · exact ((ih _ _ ea).2 _).2 ⟨l, wl, hl, rfl, by omega⟩
        · exact ((ih _ _ eb).2 _).2 ⟨r, wr, hrr, rfl, by omega⟩

/-! ### the final state of a chain as the loader computes it = the leaves of the tree -/

theorem chainOuts_node (d : BDecay) (l r : DTree) :
    chainOuts (DTree.node d l r).chain = d.o1 :: d.o2 :: (chainOuts l.chain ++ chainOuts r.chain) := by
  simp [chainOuts, DTree.chain]

theorem chainCores_node (d : BDecay) (l r : DTree) :
    chainCores (DTree.node d l r).chain = d.core :: (chainCores l.chain ++ chainCores r.chain) := by
  simp [chainCores, DTree.chain]

theorem wf_chain_mem (regs : List BDecay) : ∀ t : DTree, t.WF regs → ∀ e ∈ t.chain, e ∈ regs
  | .leaf _, _, e, he => by simp [DTree.chain] at he
  | .node d l r, ⟨hd, _, _, wl, wr⟩, e, he => by
    simp only [DTree.chain, List.mem_cons, List.mem_append] at he
    rcases he with rfl | he | he
    · exact hd
    · exact wf_chain_mem regs l wl e he
    · exact wf_chain_mem regs r wr e he

theorem wf_leaves (regs : List BDecay) : ∀ t : DTree, t.WF regs → ∀ x ∈ t.leaves, decaysOf regs x = []
  | .leaf n, h, x, hx => by
    simp only [DTree.leaves, List.mem_singleton] at hx
    subst hx; exact h
  | .node d l r, ⟨_, _, _, wl, wr⟩, x, hx => by
    simp only [DTree.leaves, List.mem_append] at hx
    rcases hx with hx | hx
    · exact wf_leaves regs l wl x hx
    · exact wf_leaves regs r wr x hx

/-- every mother of the chain is the root or a daughter somewhere in the chain -/
theorem cores_sub (regs : List BDecay) : ∀ t : DTree, t.WF regs →
    ∀ x ∈ chainCores t.chain, x = t.root ∨ x ∈ chainOuts t.chain
  | .leaf _, _, x, hx => by simp [chainCores, DTree.chain] at hx
  | .node d l r, ⟨_, hl, hr, wl, wr⟩, x, hx => by
    rw [chainCores_node] at hx
    rw [chainOuts_node]
    simp only [List.mem_cons, List.mem_append] at hx ⊢
    rcases hx with rfl | hx | hx
    · exact Or.inl rfl
    · rcases cores_sub regs l wl x hx with h | h
      · right; left; rw [h, hl]
      · right; right; right; left; exact h
    · rcases cores_sub regs r wr x hx with h | h
      · right; right; left; rw [h, hr]
      · right; right; right; right; exact h

theorem filter_names_perm (regs : List BDecay) (p : Name → Bool) : ∀ t : DTree, t.WF regs →
    (∀ x ∈ chainCores t.chain, p x = false) → (∀ x ∈ t.leaves, p x = true) →
    ((t.root :: chainOuts t.chain).filter p).Perm t.leaves
  | .leaf n, _, _, h2 => by
    have : p n = true := h2 n (by simp [DTree.leaves])
    simp [DTree.root, DTree.chain, chainOuts, DTree.leaves, this]
  | .node d l r, ⟨_, hl, hr, wl, wr⟩, h1, h2 => by
    rw [chainCores_node] at h1
    have hc : p d.core = false := h1 _ (by simp)
    have il := filter_names_perm regs p l wl (fun x hx => h1 x (by simp [hx])) (fun x hx => h2 x (by simp [DTree.leaves, hx]))
    have ir := filter_names_perm regs p r wr (fun x hx => h1 x (by simp [hx])) (fun x hx => h2 x (by simp [DTree.leaves, hx]))
    rw [chainOuts_node]
    simp only [DTree.root, DTree.leaves]
    rw [List.filter_cons_of_neg (by simp [hc])]
    have e : (d.o1 :: d.o2 :: (chainOuts l.chain ++ chainOuts r.chain)).Perm
        ((l.root :: chainOuts l.chain) ++ (r.root :: chainOuts r.chain)) := by
      rw [hl, hr]
      simp only [List.cons_append]
      refine List.Perm.cons _ ?_
      exact (List.perm_middle).symm
    refine (e.filter p).trans ?_
    rw [List.filter_append]
    exact il.append ir

/-- `split_particle_type_list` finds exactly the leaves of the tree (as a multiset) -/
theorem chainLeaves_perm (regs : List BDecay) (d : BDecay) (l r : DTree) (h : (DTree.node d l r).WF regs) :
    (chainLeaves (DTree.node d l r).chain).Perm (DTree.node d l r).leaves := by
  have hwf : (DTree.node d l r).WF regs := h
  obtain ⟨hd, hl, hr, wl, wr⟩ := h
  let c := (DTree.node d l r).chain
  let p : Name → Bool := fun x => !(chainInner c).contains x
  have houts : chainOuts c = d.o1 :: d.o2 :: (chainOuts l.chain ++ chainOuts r.chain) := chainOuts_node d l r
  have hcores : chainCores c = d.core :: (chainCores l.chain ++ chainCores r.chain) := chainCores_node d l r
  -- mothers of the subtrees are inner particles of the whole chain
  have hin : ∀ s : DTree, s.WF regs → (∀ x ∈ chainCores s.chain, x ∈ chainCores c) →
      s.root ∈ chainOuts c → (∀ x ∈ chainOuts s.chain, x ∈ chainOuts c) →
      ∀ x ∈ chainCores s.chain, p x = false := by
    intro s ws hcs hroot hos x hx
    have : x ∈ chainInner c := by
      unfold chainInner
      rw [List.mem_filter]
      refine ⟨hcs x hx, ?_⟩
      rcases cores_sub regs s ws x hx with h | h
      · simpa [h] using hroot
      · simpa using hos x h
    simp [p, this]
  -- leaves are not mothers
  have hleaf : ∀ x ∈ (DTree.node d l r).leaves, p x = true := by
    intro x hx
    have hx0 := wf_leaves regs _ hwf x hx
    have : x ∉ chainInner c := by
      unfold chainInner
      rw [List.mem_filter]
      rintro ⟨hxc, _⟩
      unfold chainCores at hxc
      rw [List.mem_map] at hxc
      obtain ⟨e, he, rfl⟩ := hxc
      have := wf_chain_mem regs _ hwf e he
      have : e ∈ decaysOf regs e.core := (mem_decaysOf _ _ _).2 ⟨this, rfl⟩
      rw [hx0] at this
      simp at this
    simp [p, this]
  have il := filter_names_perm regs p l wl
    (hin l wl (fun x hx => by rw [hcores]; simp [hx]) (by rw [houts, hl]; simp) (fun x hx => by rw [houts]; simp [hx]))
    (fun x hx => hleaf x (by simp [DTree.leaves, hx]))
  have ir := filter_names_perm regs p r wr
    (hin r wr (fun x hx => by rw [hcores]; simp [hx]) (by rw [houts, hr]; simp) (fun x hx => by rw [houts]; simp [hx]))
    (fun x hx => hleaf x (by simp [DTree.leaves, hx]))
  show ((chainOuts c).filter p).Perm _
  rw [houts]
  have e : (d.o1 :: d.o2 :: (chainOuts l.chain ++ chainOuts r.chain)).Perm
      ((l.root :: chainOuts l.chain) ++ (r.root :: chainOuts r.chain)) := by
    rw [hl, hr]
    simp only [List.cons_append]
    refine List.Perm.cons _ ?_
    exact (List.perm_middle).symm
  refine (e.filter p).trans ?_
  rw [List.filter_append]
  exact il.append ir

end TfPwaV.Config
