import TfPwaV.Proofs.Cascade
/-!
Helper lemmas for the cascade theorems of C11 (`Props/C11d.lean`), part 3: hypotheses as recursive predicates on the
decay tree and the structural inductions (sum of the built momenta, undoing the boosts, extracting the angles).
-/
open TfPwaV.ScalarR
namespace TfPwaV.C11
open TfPwaV.KinR TfPwaV.AngleR TfPwaV.CascadeR

/-! ### trees of momenta -/

theorem map_map (f g : V4 → V4) : ∀ t : MTree, (t.map f).map g = t.map (fun q => g (f q))
  | .leaf _ => rfl
  | .node a b => by simp only [MTree.map, map_map f g a, map_map f g b]

theorem map_id' : ∀ t : MTree, t.map (fun q => q) = t
  | .leaf _ => rfl
  | .node a b => by simp only [MTree.map, map_id' a, map_id' b]

theorem total_map (B : V4 → V4) (hB : ∀ a b, B (a.add b) = (B a).add (B b)) : ∀ t : MTree, (t.map B).total = B t.total
  | .leaf _ => rfl
  | .node a b => by simp only [MTree.map, MTree.total, total_map B hB a, total_map B hB b, hB]

theorem infer_p (t : MTree) : (inferMomentum t).p = t.total := by cases t <;> rfl

/-! ### hypotheses -/

/-- the particle decays (is not a final-state particle) -/
def Decays : DTree → Prop
  | .leaf _ => False
  | .node _ _ _ _ _ => True

/-- the velocity `p⃗/E` of a particle of mass `m` and momentum `P` is above the guard of `LorentzVector.boost`:
`beta2 = P²/(m²+P²) > 1e-14` -/
def VelGuard (m P : ℝ) : Prop := eps < P * P / (m * m + P * P)

/-- Hypotheses of `cascade_boost_undo`: every decay is above threshold (`m > m1 + m2`, hence break-up momentum `> 0` and
every decaying particle has mass `> 0`), final masses are `≥ 0`, and the velocity of every DECAYING daughter in its
mother's rest frame is in the regular branch of `boost`. No condition on the angles. -/
def RegB : DTree → Prop
  | .leaf m => 0 ≤ m
  | .node m _ _ d1 d2 =>
    d1.mass + d2.mass < m ∧
    (Decays d1 → VelGuard d1.mass (relP m d1.mass d2.mass)) ∧
    (Decays d2 → VelGuard d2.mass (relP m d1.mass d2.mass)) ∧ RegB d1 ∧ RegB d2

/-- Additional hypotheses of `cascade_roundtrip`, `s` = length of the z-axis handed to the particle (1 for the top
particle, the mother's break-up momentum below): `-1 < cosθ < 1`, `-π < φ < π`, and the two `cross_unit` guards of
`angle_zx_z_getx` are not triggered: `|z × x| = s ≥ 1e-14`, `|z × p| = s·P·sinθ ≥ 1e-14`. -/
def RegA (s : ℝ) : DTree → Prop
  | .leaf _ => True
  | .node m c φ d1 d2 =>
    -1 < c ∧ c < 1 ∧ -Real.pi < φ ∧ φ < Real.pi ∧ eps ≤ s ∧
    eps ≤ s * (relP m d1.mass d2.mass * Real.sqrt (1 - c * c)) ∧
    RegA (relP m d1.mass d2.mass) d1 ∧ RegA (relP m d1.mass d2.mass) d2

theorem mass_nonneg : ∀ d : DTree, RegB d → 0 ≤ d.mass
  | .leaf _, h => h
  | .node m c φ d1 d2, h => by
    obtain ⟨h0, _, _, r1, r2⟩ := h
    have := mass_nonneg d1 r1
    have := mass_nonneg d2 r2
    simp only [DTree.mass]; linarith

theorem mass_pos (d : DTree) (h : RegB d) (hd : Decays d) : 0 < d.mass := by
  cases d with
  | leaf m => exact hd.elim
  | node m c φ d1 d2 =>
    obtain ⟨h0, _, _, r1, r2⟩ := h
    have := mass_nonneg d1 r1
    have := mass_nonneg d2 r2
    simp only [DTree.mass]; linarith

theorem IsMom.mass_eq {p : V4} {m P : ℝ} (hp : IsMom p m P) (hm : 0 ≤ m) : p.mass = m := by
  have hpos : 0 ≤ m * m + P * P := by nlinarith [mul_self_nonneg m, mul_self_nonneg P]
  have ht : p.t * p.t = m * m + P * P := by rw [hp.t]; exact Real.mul_self_sqrt hpos
  have : p.m2 = m * m := by
    simp only [V4.m2, V4.dot]; linarith [hp.n]
  unfold V4.mass ksqrt kabs
  rw [this, abs_mul_self, Real.sqrt_mul_self hm]

theorem rest_mass (m : ℝ) (hm : 0 ≤ m) : (⟨m, 0, 0, 0⟩ : V4).mass = m := by
  unfold V4.mass ksqrt kabs V4.m2 V4.dot
  simp only [mul_zero, sub_zero]
  rw [abs_mul_self, Real.sqrt_mul_self hm]

/-! ### the built momenta of a subtree sum to the momentum of its root -/

theorem total_place (d : DTree) (C : MTree) (p : V4) (P : ℝ) (hp : IsMom p d.mass P)
    (hd : RegB d) (hC : Decays d → C.total = ⟨d.mass, 0, 0, 0⟩) : (place d p C).total = p := by
  cases d with
  | leaf m => rfl
  | node m c φ d1 d2 =>
    simp only [place]
    rw [total_map _ (fun a b => boost_add a b _), hC trivial]
    exact boost_from_rest hp (mass_pos _ hd trivial)

theorem mom_sum (m m1 m2 : ℝ) (k : V3) (h : m1 + m2 < m) (h1 : 0 ≤ m1) (h2 : 0 ≤ m2) :
    (mom1 m1 (relP m m1 m2) k).add (mom2 m2 (relP m m1 m2) k) = ⟨m, 0, 0, 0⟩ := by
  ext <;> simp [mom1, mom2, V4.add]
  exact energy_sum m m1 m2 h h1 h2

/-- in the rest frame of a decaying particle the momenta of all final particles below it sum to `(m, 0, 0, 0)` -/
theorem total_contents : ∀ (d : DTree) (X Y Z : V3), IsFrame X Y Z → RegB d → Decays d →
    (contents d X Y Z).total = ⟨d.mass, 0, 0, 0⟩
  | .leaf _, _, _, _, _, _, h => h.elim
  | .node m c φ d1 d2, X, Y, Z, hF, hR, _ => by
    obtain ⟨h0, _, _, r1, r2⟩ := hR
    have n1 := mass_nonneg d1 r1
    have n2 := mass_nonneg d2 r2
    obtain ⟨hP, -, -⟩ := relP_facts m d1.mass d2.mass h0 n1 n2
    have hv := vertex_eq hF m d1.mass d2.mass c φ _ rfl hP
    simp only [contents, MTree.total, hv]
    rw [total_place d1 _ _ _ (isMom1 hF _ _ _ _) r1
          (fun h => total_contents d1 _ _ _ (frame_first hF _ φ) r1 h),
        total_place d2 _ _ _ (isMom2 hF _ _ _ _) r2
          (fun h => total_contents d2 _ _ _ (frame_second hF _ φ) r2 h)]
    exact mom_sum m d1.mass d2.mass _ h0 n1 n2

/-! ### undoing the boosts -/

theorem chain_child (d : DTree) (X Y Z : V3) (p : V4) (P : ℝ) (hp : IsMom p d.mass P)
    (hd : RegB d) (hv : Decays d → VelGuard d.mass P) (B g : V4 → V4) (hG : Good B g)
    (IH : Decays d → ∀ B' g', Good B' g' →
      chainBoost (inferMomentum ((contents d X Y Z).map B')) g' = builtRest d X Y Z) :
    chainBoost (inferMomentum ((place d p (contents d X Y Z)).map B)) (fun q => (g (B p)).restVector (g q))
      = builtRest d X Y Z := by
  cases d with
  | leaf m =>
    simp only [place, MTree.map, inferMomentum, chainBoost, builtRest]
    rw [hG.mass, hp.mass_eq hd]
    rfl
  | node m c φ d1 d2 =>
    simp only [place]
    rw [map_map]
    exact IH trivial _ _ (hG.step hp (mass_pos _ hd trivial) (hv trivial))

theorem chain_general : ∀ (d : DTree) (X Y Z : V3) (B g : V4 → V4), IsFrame X Y Z → RegB d → Decays d → Good B g →
    chainBoost (inferMomentum ((contents d X Y Z).map B)) g = builtRest d X Y Z
  | .leaf _, _, _, _, _, _, _, _, h, _ => h.elim
  | .node m c φ d1 d2, X, Y, Z, B, g, hF, hR, _, hG => by
    have hR' := hR
    obtain ⟨h0, v1, v2, r1, r2⟩ := hR
    have n1 := mass_nonneg d1 r1
    have n2 := mass_nonneg d2 r2
    obtain ⟨hP, -, -⟩ := relP_facts m d1.mass d2.mass h0 n1 n2
    have hv := vertex_eq hF m d1.mass d2.mass c φ _ rfl hP
    have F1 := frame_first hF (Real.arccos c) φ
    have F2 := frame_second hF (Real.arccos c) φ
    have M1 := isMom1 hF d1.mass (relP m d1.mass d2.mass) (Real.arccos c) φ
    have M2 := isMom2 hF d2.mass (relP m d1.mass d2.mass) (Real.arccos c) φ
    have c1 := chain_child d1 _ _ _ _ _ M1 r1 v1 B g hG
      (fun h B' g' hG' => chain_general d1 _ _ _ B' g' F1 r1 h hG')
    have c2 := chain_child d2 _ _ _ _ _ M2 r2 v2 B g hG
      (fun h B' g' hG' => chain_general d2 _ _ _ B' g' F2 r2 h hG')
    simp only [hG.inv] at c1 c2
    have t1 := total_place d1 _ _ _ M1 r1 (fun h => total_contents d1 _ _ _ F1 r1 h)
    have t2 := total_place d2 _ _ _ M2 r2 (fun h => total_contents d2 _ _ _ F2 r2 h)
    simp only [contents, hv, MTree.map, inferMomentum, chainBoost, builtRest, infer_p,
      total_map B hG.add, t1, t2, hG.inv, c1, c2]
    rw [← hG.add, hG.mass, mom_sum m d1.mass d2.mass _ h0 n1 n2, rest_mass m (by linarith)]

/-! ### extracting the angles -/

/-- what `cal_helicity_angle` returns for the tree: per decay `alpha, beta` of `outs[0]` = `(φ, θ)` and of `outs[1]` =
`(φ − π, π − θ)` (the code's range for the second `alpha` is `[-2π, 0)`), with `θ = arccos c` -/
noncomputable def expectedA : DTree → ATree
  | .leaf m => .leaf m
  | .node m c φ d1 d2 =>
    .node m φ (Real.arccos c) (φ - Real.pi) (Real.pi - Real.arccos c) (expectedA d1) (expectedA d2)

theorem helicity_general : ∀ (d : DTree) (X Y Z : V3) (s : ℝ), IsFrame X Y Z → RegB d → RegA s d →
    helicityAngle (builtRest d X Y Z) (V3.smul s Z) X = expectedA d
  | .leaf _, _, _, _, _, _, _, _ => rfl
  | .node m c φ d1 d2, X, Y, Z, s, hF, hR, hA => by
    obtain ⟨h0, _, _, r1, r2⟩ := hR
    obtain ⟨hc1, hc2, hφ1, hφ2, hs, hguard, a1, a2⟩ := hA
    have n1 := mass_nonneg d1 r1
    have n2 := mass_nonneg d2 r2
    obtain ⟨hP, -, -⟩ := relP_facts m d1.mass d2.mass h0 n1 n2
    have hv := vertex_eq hF m d1.mass d2.mass c φ _ rfl hP
    set P := relP m d1.mass d2.mass with hPdef
    set θ := Real.arccos c with hθdef
    have hθ0 : 0 < θ := Real.arccos_pos.mpr hc2
    have hθπ : θ < Real.pi := Real.arccos_lt_pi.mpr hc1
    have hsin : Real.sin θ = Real.sqrt (1 - c * c) := by rw [hθdef, Real.sin_arccos, sq]
    have hg : eps ≤ s * (P * Real.sin θ) := by rw [hsin]; exact hguard
    have F1 := frame_first hF θ φ
    have F2 := frame_second hF θ φ
    obtain ⟨oa1, ob1, ox1⟩ := angle_step_scaled X Y Z hF s P θ φ hs hP hθ0 hθπ hφ1 hφ2.le hg
    obtain ⟨oa2, ob2, ox2⟩ := angle_step_second X Y Z hF s P θ φ hs hP hθ0 hθπ hφ1 hφ2.le hg
    have e1 : (mom1 d1.mass P (V3.smul P (dir X Y Z θ φ))).vect = V3.smul P (dir X Y Z θ φ) := rfl
    have e2 : (mom2 d2.mass P (V3.smul P (dir X Y Z θ φ))).vect = (V3.smul P (dir X Y Z θ φ)).neg := rfl
    have i1 := helicity_general d1 _ _ _ P F1 r1 a1
    have i2 := helicity_general d2 _ _ _ P F2 r2 a2
    rw [smul_neg'] at i2
    simp only [builtRest, hv, helicityAngle, expectedA, e1, e2, oa1, ob1, ox1, oa2, ob2, ox2, i1, i2,
      shift_first φ hφ1 hφ2, shift_second φ hφ1 hφ2]
    rfl

theorem find_expected : ∀ (d : DTree) (s : ℝ), RegA s d → findVariable (expectedA d) = d
  | .leaf _, _, _ => rfl
  | .node m c φ d1 d2, s, hA => by
    obtain ⟨hc1, hc2, _, _, _, _, a1, a2⟩ := hA
    simp only [expectedA, findVariable, find_expected d1 _ a1, find_expected d2 _ a2]
    unfold kcos
    rw [Real.cos_arccos hc1.le hc2.le]

/-! ### the top particle -/

theorem lab_frame : IsFrame ⟨1, 0, 0⟩ ⟨0, 1, 0⟩ ⟨0, 0, 1⟩ := by
  constructor <;> first | (simp [V3.dot]) | (ext <;> simp [V3.cross])

/-- `rest_vector((m,0,0,0), ·)` is the identity (velocity exactly zero: guard branch of `boost`) -/
theorem good_top (m : ℝ) : Good (fun q => q) (fun q => (⟨m, 0, 0, 0⟩ : V4).restVector q) := by
  refine ⟨fun _ _ => rfl, fun _ => rfl, ?_⟩
  intro q
  have : (⟨m, 0, 0, 0⟩ : V4).boostVector.neg = ⟨0, 0, 0⟩ := by
    ext <;> simp [V4.boostVector, V3.neg]
  simp only [V4.restVector, this]
  exact boost_zero q

/-! ### numbers for the non-vacuity example of `Props/C11d.lean` -/

theorem ex_P4 : relP 4 1 1 * relP 4 1 1 = 3 := by
  rw [relP_sq 4 1 1 (by norm_num) (by norm_num) (by norm_num)]; norm_num

theorem ex_P4_ge : 1 ≤ relP 4 1 1 := by
  have h := (relP_facts 4 1 1 (by norm_num) (by norm_num) (by norm_num)).1
  nlinarith [ex_P4]

theorem ex_P1 : relP 1 0 0 = 1 / 2 := by
  have h := (relP_facts 1 0 0 (by norm_num) (by norm_num) (by norm_num)).1
  have h2 : relP 1 0 0 * relP 1 0 0 = 1 / 4 := by
    rw [relP_sq 1 0 0 (by norm_num) (by norm_num) (by norm_num)]; norm_num
  nlinarith

end TfPwaV.C11
