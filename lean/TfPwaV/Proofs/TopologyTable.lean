import TfPwaV.Proofs.TopologyEnum
/-! C14, all n, `from_sorted_table` (part 1): the loop invariant of the search.

`from_sorted_table(decay_dict)` splits the table by the length of the values (`split_len`), takes the entries of
length 1 as `base_dict`, and for every longer entry `j` (shortest first, table order within one length) searches
with `deep_ordered_iter` the first k-subset (k = 2, 3, …) of the CURRENT keys of `base_dict` whose concatenated
values are, sorted, the value of `j`; the found keys become the daughters of `j`, are deleted from `base_dict`, and
`j` is entered.

Here: for ANY table `t` (any entry order) that holds one entry (vertex, sorted finals below it) per vertex of a
named binary tree `N` with pairwise different vertices,
  * `FInv` — the loop invariant: `base_dict` is a forest of finished subtrees of `N` (`sound`), whose leaf sets are
    pairwise disjoint (`disj`) and cover all leaves of `N` (`cover`); every finished subtree whose mother has not
    been entered yet is a key (`avail`); the decays collected so far are decays of `N` (`accSound`);
  * `deepSearch_pair` — under the invariant the first matching subset in `deep_ordered_iter` order is exactly the
    pair of daughters of the next row (no other subset of keys, of any size reached earlier, matches);
  * `sched_of_sorted` — processing rows by non-decreasing length makes both daughters of every row finished when the
    row is reached;
  * `fstLoop_inv` — the whole loop. -/
set_option linter.unusedSectionVars false
namespace TfPwaV.Topology

/-! ## generic list facts -/

theorem range_two_add (k : Nat) : List.range (k + 2) = 0 :: 1 :: List.range' 2 k := by
  rw [List.range_eq_range', List.range'_succ, List.range'_succ]

theorem range_three_add (k : Nat) : List.range (k + 3) = 0 :: 1 :: 2 :: List.range' 3 k := by
  rw [List.range_eq_range', List.range'_succ, List.range'_succ, List.range'_succ]

theorem pairwise_of_forall' {β : Type} (R : β → β → Prop) (l : List β) (h : ∀ a ∈ l, ∀ b ∈ l, R a b) :
    l.Pairwise R := by
  induction l with
  | nil => exact List.Pairwise.nil
  | cons a l ih =>
    exact List.pairwise_cons.2 ⟨fun b hb => h a List.mem_cons_self b (List.mem_cons_of_mem _ hb),
      ih fun x hx y hy => h x (List.mem_cons_of_mem _ hx) y (List.mem_cons_of_mem _ hy)⟩

theorem foldl_max_ge (l : List Nat) (init : Nat) :
    init ≤ l.foldl max init ∧ ∀ x ∈ l, x ≤ l.foldl max init := by
  induction l generalizing init with
  | nil => simp
  | cons a l ih =>
    obtain ⟨h1, h2⟩ := ih (max init a)
    simp only [List.foldl_cons, List.mem_cons]
    refine ⟨by omega, ?_⟩
    rintro x (rfl | hx)
    · omega
    · exact h2 x hx

/-- entries of `l` with `lo ≤ f x < lo + n`, grouped by `f`, smallest first (the `split_len` layers, flattened) -/
def buckets {β : Type} (f : β → Nat) (l : List β) (lo n : Nat) : List β :=
  (List.range' lo n).flatMap fun i => l.filter fun x => f x == i

theorem mem_buckets {β : Type} (f : β → Nat) (l : List β) (lo n : Nat) (x : β) :
    x ∈ buckets f l lo n ↔ x ∈ l ∧ lo ≤ f x ∧ f x < lo + n := by
  simp only [buckets, List.mem_flatMap, List.mem_range'_1, List.mem_filter, beq_iff_eq]
  constructor
  · rintro ⟨i, ⟨h1, h2⟩, h3, rfl⟩; exact ⟨h3, h1, h2⟩
  · rintro ⟨h1, h2, h3⟩; exact ⟨f x, ⟨h2, h3⟩, h1, rfl⟩

theorem buckets_sorted {β : Type} (f : β → Nat) (l : List β) (hl : l.Nodup) (lo n : Nat) :
    (buckets f l lo n).Pairwise (fun x y => f x ≤ f y) ∧ (buckets f l lo n).Nodup := by
  induction n generalizing lo with
  | zero => simp [buckets]
  | succ n ih =>
    have e : buckets f l lo (n + 1) = (l.filter fun x => f x == lo) ++ buckets f l (lo + 1) n := by
      simp only [buckets, List.range'_succ, List.flatMap_cons]
    obtain ⟨h1, h2⟩ := ih (lo + 1)
    rw [e]
    constructor
    · rw [List.pairwise_append]
      refine ⟨?_, h1, ?_⟩
      · apply pairwise_of_forall'
        intro a ha b hb
        simp only [List.mem_filter, beq_iff_eq] at ha hb
        omega
      · intro a ha b hb
        simp only [List.mem_filter, beq_iff_eq] at ha
        have := (mem_buckets f l (lo + 1) n b).1 hb
        omega
    · rw [List.nodup_append]
      refine ⟨List.Nodup.sublist List.filter_sublist hl, h2, ?_⟩
      intro a ha b hb hab
      subst hab
      simp only [List.mem_filter, beq_iff_eq] at ha
      have := (mem_buckets f l (lo + 1) n a).1 hb
      omega

/-! ## `deep_ordered_iter`: k-subsets in index order -/

theorem combos_mem {β : Type} (l : List β) (k : Nat) (x : List β) (h : x ∈ combos l k) :
    x.Sublist l ∧ x.length = k := by
  induction l generalizing k x with
  | nil =>
    cases k with
    | zero => simp only [combos, List.mem_singleton] at h; subst h; simp
    | succ k => simp [combos] at h
  | cons a l ih =>
    cases k with
    | zero => simp only [combos, List.mem_singleton] at h; subst h; simp
    | succ k =>
      simp only [combos, List.mem_append, List.mem_map] at h
      rcases h with ⟨y, hy, rfl⟩ | h
      · obtain ⟨h1, h2⟩ := ih k y hy
        exact ⟨h1.cons_cons a, by simp [h2]⟩
      · obtain ⟨h1, h2⟩ := ih (k + 1) x h
        exact ⟨h1.cons a, h2⟩

theorem mem_combos_of_sublist {β : Type} (l x : List β) (h : x.Sublist l) : x ∈ combos l x.length := by
  induction h with
  | slnil => simp [combos]
  | @cons x l a h ih =>
    cases x with
    | nil => simp [combos]
    | cons b x =>
      simp only [List.length_cons, combos, List.mem_append]
      right; simpa using ih
  | @cons_cons x l a h ih =>
    simp only [List.length_cons, combos, List.mem_append, List.mem_map]
    left; exact ⟨_, ih, rfl⟩

theorem pair_sublist {β : Type} [DecidableEq β] (l : List β) (a b : β) (ha : a ∈ l) (hb : b ∈ l) (hab : a ≠ b) :
    [a, b].Sublist l ∨ [b, a].Sublist l := by
  induction l with
  | nil => simp at ha
  | cons c l ih =>
    by_cases hca : c = a
    · subst hca
      left
      have hb' : b ∈ l := by
        rcases List.mem_cons.1 hb with e | e
        · exact absurd e.symm hab
        · exact e
      exact (List.singleton_sublist.2 hb').cons_cons c
    · by_cases hcb : c = b
      · subst hcb
        right
        have ha' : a ∈ l := by
          rcases List.mem_cons.1 ha with e | e
          · exact absurd e.symm hca
          · exact e
        exact (List.singleton_sublist.2 ha').cons_cons c
      · have ha' : a ∈ l := by
          rcases List.mem_cons.1 ha with e | e
          · exact absurd e.symm hca
          · exact e
        have hb' : b ∈ l := by
          rcases List.mem_cons.1 hb with e | e
          · exact absurd e.symm hcb
          · exact e
        rcases ih ha' hb' with h | h
        · exact Or.inl (h.cons c)
        · exact Or.inr (h.cons c)

/-! ## more on named trees -/
section nt
variable {α : Type}

theorem NT.leaves_length_pos (t : NT α) : 1 ≤ t.leaves.length := by
  induction t with
  | leaf a => simp [NT.leaves]
  | node a l r ihl ihr => simp only [NT.leaves, List.length_append]; omega

theorem NT.eq_leaf_of_length_one (t : NT α) (h : t.leaves.length = 1) : ∃ b, t = NT.leaf b := by
  cases t with
  | leaf a => exact ⟨a, rfl⟩
  | node a l r =>
    have h1 := l.leaves_length_pos
    have h2 := r.leaves_length_pos
    simp only [NT.leaves, List.length_append] at h
    omega

theorem NT.leaves_exists (t : NT α) : ∃ z, z ∈ t.leaves := by
  have := t.leaves_length_pos
  cases h : t.leaves with
  | nil => simp [h] at this
  | cons z _ => exact ⟨z, List.mem_cons_self⟩

theorem NT.sub_leaves {s t : NT α} (h : s ∈ t.subs) : ∀ z ∈ s.leaves, z ∈ t.leaves := by
  induction t with
  | leaf a => simp only [NT.subs, List.mem_singleton] at h; subst h; exact fun z hz => hz
  | node a l r ihl ihr =>
    simp only [NT.subs, List.mem_cons, List.mem_append] at h
    intro z hz
    simp only [NT.leaves, List.mem_append]
    rcases h with rfl | h | h
    · simpa [NT.leaves] using hz
    · exact Or.inl (ihl h z hz)
    · exact Or.inr (ihr h z hz)

end nt

section sortlen
variable {α : Type} [LT α] [DecidableLT α]

theorem isort_length (l : List α) : (isort l).length = l.length := (isort_perm l).length_eq

theorem mem_isort (l : List α) (z : α) : z ∈ isort l ↔ z ∈ l := (isort_perm l).mem_iff

end sortlen

/-! ## the loop of `from_sorted_table` -/
section fst
variable {α : Type} [DecidableEq α] [LT α] [DecidableLT α]

theorem deepSearch_eq (target : List α) (base : Dict α (List α)) :
    deepSearch target base =
      (((List.range (base.keys.length + 1)).filter (2 ≤ ·)).flatMap fun k => combos base.keys k).find?
        fun ks => decide (isort (ks.flatMap fun k => (base.get? k).getD []) = isort target) := rfl

/-- the subtree `s` has been built already: a final particle, or a row that has been entered -/
def Finished (D : List α) (s : NT α) : Prop := (∃ b, s = NT.leaf b) ∨ s.name ∈ D

/-- loop invariant of `from_sorted_table`; `D` = the rows entered so far (their keys, in order), `base` =
`base_dict`, `acc` = `ret` -/
structure FInv (N : NT α) (D : List α) (base : Dict α (List α)) (acc : Chain α) : Prop where
  keys : base.keys.Nodup
  /-- every entry of `base_dict` is a subtree of the tree with the sorted finals below it -/
  sound : ∀ x L, base.get? x = some L → ∃ s ∈ N.subs, s.name = x ∧ L = isort s.leaves
  /-- the leaf sets of two different entries are disjoint -/
  disj : ∀ x y Lx Ly, x ≠ y → base.get? x = some Lx → base.get? y = some Ly → ∀ z ∈ Lx, z ∉ Ly
  /-- every final particle is below exactly one entry (with `disj`: the entries partition the finals) -/
  cover : ∀ z ∈ N.leaves, ∃ x L, base.get? x = some L ∧ z ∈ L
  /-- every finished subtree whose mother has not been entered is an entry -/
  avail : ∀ s ∈ N.subs, Finished D s → (∀ a l r, NT.node a l r ∈ N.subs → (s = l ∨ s = r) → a ∉ D) →
    base.get? s.name = some (isort s.leaves)
  cores : coreList acc = D
  dnodup : D.Nodup
  /-- the decays collected so far are decays of the tree (daughters in the order of `base_dict`) -/
  accSound : ∀ d ∈ acc, ∃ l r, NT.node d.core l r ∈ N.subs ∧ d.outs.Perm [l.name, r.name]

/-- the remaining rows can be processed in the given order: when a row is reached both daughters are finished -/
def Sched (N : NT α) : List α → List (α × List α) → Prop
  | _, [] => True
  | D, j :: rest =>
    (∃ l r, NT.node j.1 l r ∈ N.subs ∧ j.2 = isort (l.leaves ++ r.leaves) ∧ Finished D l ∧ Finished D r ∧ j.1 ∉ D)
      ∧ Sched N (D ++ [j.1]) rest

omit [LT α] [DecidableLT α] in
theorem get?_del2 (base : Dict α (List α)) (x y k : α) :
    ((base.del x).del y).get? k = if k = x ∨ k = y then none else base.get? k := by
  rw [Dict.get?_del, Dict.get?_del]
  by_cases h1 : y = k
  · simp [h1]
  · by_cases h2 : x = k
    · simp [h2]
    · have h1' : ¬ k = y := fun e => h1 e.symm
      have h2' : ¬ k = x := fun e => h2 e.symm
      simp [h1, h2, h1', h2']

/-- ★ the search of `from_sorted_table` under the invariant: for the row `a → l r` whose daughters are finished,
`deep_search` returns, and what it returns — the FIRST k-subset of the keys of `base_dict` in `deep_ordered_iter`
order (k = 2 first) whose concatenated values sort to the row's value — is exactly the pair of daughters, in the
order in which they stand in `base_dict`. -/
theorem deepSearch_pair (hα : LinLt α) {N : NT α} (hv : N.verts.Nodup) {D : List α} {base : Dict α (List α)}
    {acc : Chain α} (h : FInv N D base acc) {a : α} {l r : NT α} (hn : NT.node a l r ∈ N.subs)
    (hl : Finished D l) (hr : Finished D r) (ha : a ∉ D) :
    base.get? l.name = some (isort l.leaves) ∧ base.get? r.name = some (isort r.leaves) ∧
    ∃ found, deepSearch (isort (l.leaves ++ r.leaves)) base = some found ∧
      (found = [l.name, r.name] ∨ found = [r.name, l.name]) := by
  have ch := NT.children_mem hn
  have hpar : ∀ s, (s = l ∨ s = r) → ∀ a' l' r', NT.node a' l' r' ∈ N.subs → (s = l' ∨ s = r') → a' ∉ D := by
    intro s hs a' l' r' hn' hs'
    have := NT.parent_unique hv hn' hn hs' hs
    injection this with e _ _
    rw [e]; exact ha
  have gl := h.avail l ch.1 hl (hpar l (Or.inl rfl))
  have gr := h.avail r ch.2 hr (hpar r (Or.inr rfl))
  refine ⟨gl, gr, ?_⟩
  have hne : l.name ≠ r.name := (NT.node_names_ne hn hv).2.2
  have ml : l.name ∈ base.keys := by
    apply Classical.byContradiction
    intro hc
    have := (Dict.get?_none_iff base l.name).2 hc
    rw [gl] at this; cases this
  have mr : r.name ∈ base.keys := by
    apply Classical.byContradiction
    intro hc
    have := (Dict.get?_none_iff base r.name).2 hc
    rw [gr] at this; cases this
  -- the predicate of the search
  let P : List α → Bool := fun ks =>
    decide (isort (ks.flatMap fun k => (base.get? k).getD []) = isort (isort (l.leaves ++ r.leaves)))
  have hPlr : P [l.name, r.name] = true := by
    simp only [P, List.flatMap_cons, List.flatMap_nil, List.append_nil, gl, gr, Option.getD_some, decide_eq_true_eq]
    rw [isort_eq_iff_perm hα]
    exact (List.Perm.append (isort_perm _) (isort_perm _)).trans (isort_perm _).symm
  have hPrl : P [r.name, l.name] = true := by
    simp only [P, List.flatMap_cons, List.flatMap_nil, List.append_nil, gl, gr, Option.getD_some, decide_eq_true_eq]
    rw [isort_eq_iff_perm hα]
    exact ((List.Perm.append (isort_perm _) (isort_perm _)).trans List.perm_append_comm).trans (isort_perm _).symm
  -- existence of a matching pair among the 2-subsets
  have hex : ∃ x ∈ combos base.keys 2, P x = true := by
    rcases pair_sublist base.keys l.name r.name ml mr hne with hs | hs
    · exact ⟨_, mem_combos_of_sublist _ _ hs, hPlr⟩
    · exact ⟨_, mem_combos_of_sublist _ _ hs, hPrl⟩
  -- every matching 2-subset is the pair of daughters
  have huniq : ∀ x ∈ combos base.keys 2, P x = true → x = [l.name, r.name] ∨ x = [r.name, l.name] := by
    intro ks hks hP
    obtain ⟨hsub, hlen⟩ := combos_mem _ _ _ hks
    obtain ⟨x, y, rfl⟩ : ∃ x y, ks = [x, y] := by
      match ks, hlen with
      | [x, y], _ => exact ⟨x, y, rfl⟩
    have hnd := List.Nodup.sublist hsub h.keys
    have hxy : x ≠ y := by
      intro e; subst e; simp at hnd
    have mx : x ∈ base.keys := hsub.subset (by simp)
    have my : y ∈ base.keys := hsub.subset (by simp)
    obtain ⟨Lx, gx⟩ : ∃ L, base.get? x = some L := by
      cases hgx : base.get? x with
      | none => exact absurd mx ((Dict.get?_none_iff base x).1 hgx)
      | some L => exact ⟨L, rfl⟩
    obtain ⟨Ly, gy⟩ : ∃ L, base.get? y = some L := by
      cases hgy : base.get? y with
      | none => exact absurd my ((Dict.get?_none_iff base y).1 hgy)
      | some L => exact ⟨L, rfl⟩
    simp only [P, List.flatMap_cons, List.flatMap_nil, List.append_nil, gx, gy, Option.getD_some,
      decide_eq_true_eq] at hP
    rw [isort_eq_iff_perm hα] at hP
    have hmem : ∀ z, z ∈ l.leaves ++ r.leaves → z ∈ Lx ∨ z ∈ Ly := by
      intro z hz
      have := (hP.trans (isort_perm _)).mem_iff.2 hz
      exact List.mem_append.1 this
    obtain ⟨z, hz⟩ := l.leaves_exists
    obtain ⟨w, hw⟩ := r.leaves_exists
    have hzl : z ∈ isort l.leaves := (mem_isort _ _).2 hz
    have hwr : w ∈ isort r.leaves := (mem_isort _ _).2 hw
    -- an entry that contains a final of l is l; one that contains a final of r is r
    have ofl : ∀ k L, base.get? k = some L → z ∈ L → k = l.name := by
      intro k L gk hzk
      by_cases e : k = l.name
      · exact e
      · exact absurd hzl (h.disj k l.name L _ e gk gl z hzk)
    have ofr : ∀ k L, base.get? k = some L → w ∈ L → k = r.name := by
      intro k L gk hwk
      by_cases e : k = r.name
      · exact e
      · exact absurd hwr (h.disj k r.name L _ e gk gr w hwk)
    rcases hmem z (List.mem_append_left _ hz) with hzx | hzy
    · have ex := ofl x Lx gx hzx
      rcases hmem w (List.mem_append_right _ hw) with hwx | hwy
      · have := ofr x Lx gx hwx
        exact absurd (ex.symm.trans this) hne
      · have ey := ofr y Ly gy hwy
        left; rw [ex, ey]
    · have ey := ofl y Ly gy hzy
      rcases hmem w (List.mem_append_right _ hw) with hwx | hwy
      · have ex := ofr x Lx gx hwx
        right; rw [ex, ey]
      · have := ofr y Ly gy hwy
        exact absurd (ey.symm.trans this) hne
  -- the search starts with k = 2
  have hlen2 : 2 ≤ base.keys.length := by
    rcases pair_sublist base.keys l.name r.name ml mr hne with hs | hs
    · simpa using hs.length_le
    · simpa using hs.length_le
  obtain ⟨k, hk⟩ : ∃ k, base.keys.length + 1 = k + 3 := ⟨base.keys.length - 2, by omega⟩
  have hfind : ((combos base.keys 2).find? P).isSome = true := by
    rw [List.find?_isSome]; exact hex
  obtain ⟨found, hfound⟩ := Option.isSome_iff_exists.1 hfind
  refine ⟨found, ?_, huniq found (List.mem_of_find?_eq_some hfound) (List.find?_some hfound)⟩
  rw [deepSearch_eq, hk, range_three_add]
  have e1 : (List.filter (fun x => decide (2 ≤ x)) (0 :: 1 :: 2 :: List.range' 3 k))
      = 2 :: List.filter (fun x => decide (2 ≤ x)) (List.range' 3 k) := by
    simp
  rw [e1, List.flatMap_cons, List.find?_append]
  show (List.find? P (combos base.keys 2)).or _ = some found
  rw [hfound]; rfl

/-- ★ one iteration of the `for j in s_dict_i` loop keeps the invariant: the found daughters are deleted from
`base_dict`, the row is entered, the decay `a → found` is appended. -/
theorem FInv.step {N : NT α} (hv : N.verts.Nodup) {D : List α} {base : Dict α (List α)}
    {acc : Chain α} (h : FInv N D base acc) {a : α} {l r : NT α} (hn : NT.node a l r ∈ N.subs)
    (ha : a ∉ D) (gl : base.get? l.name = some (isort l.leaves)) (gr : base.get? r.name = some (isort r.leaves))
    (found : List α) (hf : found = [l.name, r.name] ∨ found = [r.name, l.name]) :
    FInv N (D ++ [a]) ((found.foldl (fun b i => b.del i) base).set a (isort (l.leaves ++ r.leaves)))
      (acc ++ [⟨a, found⟩]) := by
  have ch := NT.children_mem hn
  obtain ⟨nal, nar, nlr⟩ := NT.node_names_ne hn hv
  -- the dictionary after the deletions
  have hk1 : (found.foldl (fun b i => b.del i) base).keys.Nodup := by
    rcases hf with rfl | rfl <;>
      exact Dict.keys_del_nodup _ _ (Dict.keys_del_nodup _ _ h.keys)
  have hg1 : ∀ k, (found.foldl (fun b i => b.del i) base).get? k =
      if k = l.name ∨ k = r.name then none else base.get? k := by
    intro k
    rcases hf with rfl | rfl
    · exact get?_del2 base l.name r.name k
    · simp only [List.foldl_cons, List.foldl_nil]
      rw [get?_del2 base r.name l.name k]
      by_cases e1 : k = l.name <;> by_cases e2 : k = r.name <;> simp [e1, e2]
  have hfp : found.Perm [l.name, r.name] := by
    rcases hf with rfl | rfl
    · exact List.Perm.refl _
    · exact List.Perm.swap _ _ _
  generalize found.foldl (fun b i => b.del i) base = base1 at hk1 hg1
  have hg : ∀ k, (base1.set a (isort (l.leaves ++ r.leaves))).get? k =
      if a = k then some (isort (l.leaves ++ r.leaves))
      else if k = l.name ∨ k = r.name then none else base.get? k := by
    intro k; rw [Dict.get?_set, hg1]
  have hL : ∀ z, z ∈ isort (l.leaves ++ r.leaves) ↔ z ∈ isort l.leaves ∨ z ∈ isort r.leaves := by
    intro z; simp only [mem_isort, List.mem_append]
  refine ⟨Dict.keys_set_nodup _ _ _ hk1, ?_, ?_, ?_, ?_, ?_, ?_, ?_⟩
  · -- sound
    intro x L hx
    rw [hg] at hx
    by_cases e : a = x
    · simp only [if_pos e, Option.some.injEq] at hx
      exact ⟨_, hn, by simpa [NT.name] using e, by rw [← hx]; rfl⟩
    · simp only [if_neg e] at hx
      split at hx
      · cases hx
      · exact h.sound x L hx
  · -- disj
    intro x y Lx Ly hxy hx hy z hzx hzy
    rw [hg] at hx hy
    by_cases ex : a = x
    · have ey : ¬ a = y := fun e => hxy (ex.symm.trans e)
      simp only [if_pos ex, Option.some.injEq] at hx
      simp only [if_neg ey] at hy
      split at hy
      · cases hy
      · rename_i hny
        rw [not_or] at hny
        rw [← hx, hL] at hzx
        rcases hzx with hz | hz
        · exact h.disj l.name y _ _ (fun e => hny.1 e.symm) gl hy z hz hzy
        · exact h.disj r.name y _ _ (fun e => hny.2 e.symm) gr hy z hz hzy
    · simp only [if_neg ex] at hx
      split at hx
      · cases hx
      · rename_i hnx
        rw [not_or] at hnx
        by_cases ey : a = y
        · simp only [if_pos ey, Option.some.injEq] at hy
          rw [← hy, hL] at hzy
          rcases hzy with hz | hz
          · exact h.disj x l.name _ _ hnx.1 hx gl z hzx hz
          · exact h.disj x r.name _ _ hnx.2 hx gr z hzx hz
        · simp only [if_neg ey] at hy
          split at hy
          · cases hy
          · exact h.disj x y Lx Ly hxy hx hy z hzx hzy
  · -- cover
    intro z hz
    obtain ⟨x, L, gx, hzL⟩ := h.cover z hz
    by_cases e1 : x = l.name ∨ x = r.name
    · refine ⟨a, isort (l.leaves ++ r.leaves), by rw [hg]; simp, ?_⟩
      rw [hL]
      rcases e1 with e | e
      · subst e; rw [gl] at gx; cases gx; exact Or.inl hzL
      · subst e; rw [gr] at gx; cases gx; exact Or.inr hzL
    · by_cases e2 : a = x
      · refine ⟨a, isort (l.leaves ++ r.leaves), by rw [hg]; simp, ?_⟩
        obtain ⟨s, hs, hsn, hsL⟩ := h.sound x L gx
        have := NT.eq_of_name hv hs hn (by simpa [NT.name] using hsn.trans e2.symm)
        subst this
        rw [hsL] at hzL
        exact hzL
      · exact ⟨x, L, by rw [hg]; simp [e1, e2, gx], hzL⟩
  · -- avail
    intro s hs hfin hpar
    by_cases e : s = NT.node a l r
    · subst e
      rw [hg]; simp [NT.name, NT.leaves]
    · have hna : ¬ a = s.name := by
        intro e'
        exact e (NT.eq_of_name hv hs hn (by simpa [NT.name] using e'.symm))
      have hfin' : Finished D s := by
        rcases hfin with hleaf | hm
        · exact Or.inl hleaf
        · right
          rcases List.mem_append.1 hm with hm | hm
          · exact hm
          · simp only [List.mem_singleton] at hm
            exact absurd hm.symm hna
      have hnl : ¬ s.name = l.name := by
        intro e'
        have := NT.eq_of_name hv hs ch.1 e'
        exact hpar a l r hn (Or.inl this) (by simp)
      have hnr : ¬ s.name = r.name := by
        intro e'
        have := NT.eq_of_name hv hs ch.2 e'
        exact hpar a l r hn (Or.inr this) (by simp)
      rw [hg]
      simp only [if_neg hna, hnl, hnr, or_self, if_false]
      apply h.avail s hs hfin'
      intro a' l' r' hn' hc hm
      exact hpar a' l' r' hn' hc (List.mem_append_left _ hm)
  · simp [coreList, List.map_append] at *
    exact h.cores
  · rw [List.nodup_append]
    refine ⟨h.dnodup, List.pairwise_singleton _ _, ?_⟩
    intro x hx y hy hxy
    simp only [List.mem_singleton] at hy
    subst hy; subst hxy
    exact ha hx
  · intro d hd
    rcases List.mem_append.1 hd with hd | hd
    · exact h.accSound d hd
    · simp only [List.mem_singleton] at hd
      subst hd
      exact ⟨l, r, hn, hfp⟩

/-- ★ the whole loop of `from_sorted_table`: it never raises "not found in searching", and the invariant holds at
every iteration and at the end -/
theorem fstLoop_inv (hα : LinLt α) {N : NT α} (hv : N.verts.Nodup) (todo : List (α × List α)) (D : List α)
    (base : Dict α (List α)) (acc : Chain α) (h : FInv N D base acc) (hs : Sched N D todo) :
    ∃ c base', fstLoop todo base acc = some c ∧ FInv N (D ++ todo.map (·.1)) base' c := by
  induction todo generalizing D base acc with
  | nil => exact ⟨acc, base, rfl, by simpa using h⟩
  | cons j rest ih =>
    obtain ⟨⟨l, r, hn, hj, hl, hr, ha⟩, hrest⟩ := hs
    obtain ⟨gl, gr, found, hds, hf⟩ := deepSearch_pair hα hv h hn hl hr ha
    have hstep := h.step hv hn ha gl gr found hf
    obtain ⟨c, base', hc, hinv⟩ := ih (D ++ [j.1]) _ _ hstep hrest
    refine ⟨c, base', ?_, ?_⟩
    · have hds' : deepSearch j.2 base = some found := by rw [hj]; exact hds
      simp only [fstLoop, hds']
      rw [hj]; exact hc
    · simpa [List.append_assoc] using hinv

/-- ★ rows processed by non-decreasing number of finals: when a row is reached, both daughters are final
particles or rows already entered (a daughter has strictly fewer finals than its mother) -/
theorem sched_of_sorted {N : NT α} (hv : N.verts.Nodup) (pre todo : List (α × List α))
    (hrow : ∀ j ∈ pre ++ todo, ∃ a l r, NT.node a l r ∈ N.subs ∧ j = (a, isort (l.leaves ++ r.leaves)))
    (hall : ∀ a l r, NT.node a l r ∈ N.subs → (a, isort (l.leaves ++ r.leaves)) ∈ pre ++ todo)
    (hnd : ((pre ++ todo).map (·.1)).Nodup)
    (hsorted : (pre ++ todo).Pairwise (fun x y => x.2.length ≤ y.2.length)) :
    Sched N (pre.map (·.1)) todo := by
  induction todo generalizing pre with
  | nil => trivial
  | cons j rest ih =>
    obtain ⟨a, l, r, hn, hj⟩ := hrow j (by simp)
    have ch := NT.children_mem hn
    obtain ⟨nal, nar, _⟩ := NT.node_names_ne hn hv
    have hpw := List.pairwise_append.1 hsorted
    have hjrest := (List.pairwise_cons.1 hpw.2.1).1
    -- a daughter that is a row stands before j
    have fin : ∀ s, s ∈ N.subs → s.leaves.length < (l.leaves ++ r.leaves).length → a ≠ s.name →
        Finished (pre.map (·.1)) s := by
      intro s hs hlt hne
      cases s with
      | leaf b => exact Or.inl ⟨b, rfl⟩
      | node b l1 r1 =>
        right
        have hm := hall b l1 r1 hs
        rcases List.mem_append.1 hm with hm | hm
        · exact List.mem_map.2 ⟨_, hm, rfl⟩
        · exfalso
          rcases List.mem_cons.1 hm with e | hm
          · rw [hj] at e
            injection e with e1 _
            exact hne (by simpa [NT.name] using e1.symm)
          · have := hjrest _ hm
            rw [hj] at this
            simp only [isort_length] at this
            simp only [NT.leaves] at hlt
            omega
    have hl1 := l.leaves_length_pos
    have hr1 := r.leaves_length_pos
    refine ⟨⟨l, r, ?_, ?_, fin l ch.1 (by simp only [List.length_append]; omega) nal,
      fin r ch.2 (by simp only [List.length_append]; omega) nar, ?_⟩, ?_⟩
    · rw [hj]; exact hn
    · rw [hj]
    · rw [List.map_append, List.nodup_append] at hnd
      intro hm
      exact hnd.2.2 _ hm j.1 (by simp) rfl
    · have := ih (pre ++ [j]) (by simpa using hrow) (by simpa using hall) (by simpa using hnd)
        (by simpa using hsorted)
      simpa using this

end fst

end TfPwaV.Topology
