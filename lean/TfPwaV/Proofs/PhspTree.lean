import TfPwaV.Proofs.PhspMom
/-! Helper lemmas for C10: `ChainGenerator._restruct_pi` / `tree_boost` over arbitrary nestings. -/
open TfPwaV.ScalarR
namespace TfPwaV.PhspR
open TfPwaV.KinR

/-- `tree_boost`, momentum: daughters adding up to `(m,0,0,0)` add up to `p0` after `rest_vector(neg(p0), ·)` -/
theorem tree_boost_sum_aux (p0 : V4) (m : ℝ) (l : List V4) (hm : 0 < m) (hE : 0 < p0.t) (hp0 : OnShell p0 m)
    (hl : sumV4 l = ⟨m, 0, 0, 0⟩) : sumV4 (l.map (fun x => p0.neg.restVector x)) = p0 := by
  have hrest : (fun x : V4 => p0.neg.restVector x) = (fun x : V4 => x.boost p0.boostVector) := by
    funext x; simp only [V4.restVector, neg_neg_boostVector]
  rw [hrest, sumV4_map_boost, hl]
  apply rest_boost p0 m hm hE
  simpa [OnShell, V4.m2, V4.dot] using hp0

/-- one nesting level: the leaves below a node add up to the sum of the daughters' momenta -/
theorem attach_sum : ∀ (subs : List (Option (List PTree))) (pi : List V4),
    subs.length = pi.length →
    List.Forall₂ (fun s p => match s with
      | none => True
      | some f => ∃ m : ℝ, 0 < m ∧ 0 < p.t ∧ OnShell p m ∧ sumV4 (leavesL f) = ⟨m, 0, 0, 0⟩) subs pi →
    sumV4 (leavesL (attach subs pi)) = sumV4 pi := by
  intro subs pi hlen h
  induction h with
  | nil => simp [attach, leavesL]
  | @cons s p ss ps hsp _ ih =>
    have ih' := ih (by simpa using hlen)
    cases s with
    | none =>
      simp only [attach, leavesL, PTree.leaves, List.singleton_append, sumV4_cons, ih']
    | some f =>
      obtain ⟨m, hm, hE, hp, hf⟩ := hsp
      simp only [attach, leavesL, PTree.leaves, sumV4_append, sumV4_cons, ih']
      rw [leavesL_boostByL, tree_boost_sum_aux p m _ hm hE hp hf]

/-- what a correct generator of the node `(m, daughters' masses)` returns -/
def GoodOut (g : ℝ × List ℝ) (pi : List V4) : Prop :=
  sumV4 pi = ⟨g.1, 0, 0, 0⟩ ∧ List.Forall₂ OnShell pi g.2 ∧ ∀ p ∈ pi, 0 < p.t

mutual
def MTree.posNodes : MTree → Prop
  | .leaf _ => True
  | .node m ch => 0 < m ∧ posNodesL ch
def posNodesL : List MTree → Prop
  | [] => True
  | t :: ts => t.posNodes ∧ posNodesL ts
end

/-- the sub-tree returned for a daughter is consistent with the daughter -/
def SubOK : MTree → Option (List PTree) → Prop
  | .leaf _, none => True
  | .node m _, some f => sumV4 (leavesL f) = ⟨m, 0, 0, 0⟩
  | _, _ => False

theorem forall₂_split {α β : Type} {R : α → β → Prop} : ∀ (a : List α) (c : List β) (b : List α) (d : List β),
    a.length = c.length → List.Forall₂ R (a ++ b) (c ++ d) → List.Forall₂ R a c ∧ List.Forall₂ R b d := by
  intro a
  induction a with
  | nil =>
    intro c b d hl h
    have : c = [] := by cases c with | nil => rfl | cons x xs => simp at hl
    subst this
    exact ⟨List.Forall₂.nil, by simpa using h⟩
  | cons x xs ih =>
    intro c b d hl h
    cases c with
    | nil => simp at hl
    | cons y ys =>
      simp only [List.cons_append, List.forall₂_cons] at h
      obtain ⟨h1, h2⟩ := ih ys b d (by simpa using hl) h.2
      exact ⟨List.Forall₂.cons h.1 h1, h2⟩

/-- combine the per-daughter facts into the hypothesis of `chain_momentum_sum_partial` -/
theorem attach_hyp : ∀ (ch : List MTree) (subs : List (Option (List PTree))) (pi : List V4),
    posNodesL ch → List.Forall₂ SubOK ch subs → List.Forall₂ OnShell pi (ch.map MTree.mass) → (∀ p ∈ pi, 0 < p.t) →
    List.Forall₂ (fun s p => match s with
      | none => True
      | some f => ∃ m : ℝ, 0 < m ∧ 0 < p.t ∧ OnShell p m ∧ sumV4 (leavesL f) = ⟨m, 0, 0, 0⟩) subs pi := by
  intro ch
  induction ch with
  | nil =>
    intro subs pi _ hs hp _
    cases hs
    cases pi with
    | nil => exact List.Forall₂.nil
    | cons p ps => simp at hp
  | cons t ts ih =>
    intro subs pi hpos hs hp hE
    cases hs with
    | cons hst hsts =>
      cases pi with
      | nil => simp at hp
      | cons p ps =>
        simp only [List.map_cons, List.forall₂_cons] at hp
        simp only [posNodesL] at hpos
        refine List.Forall₂.cons ?_ (ih _ _ hpos.2 hsts hp.2 (fun q hq => hE q (by simp [hq])))
        rename_i s ss
        cases t with
        | leaf m =>
          cases s with
          | none => trivial
          | some f => simp [SubOK] at hst
        | node m c =>
          cases s with
          | none => simp [SubOK] at hst
          | some f =>
            simp only [SubOK] at hst
            simp only [MTree.posNodes] at hpos
            exact ⟨m, hpos.1.1, hE p (by simp), by simpa [MTree.mass] using hp.1, hst⟩

mutual
theorem restruct_sum : ∀ (t : MTree) (pis : List (List V4)) (forest : List PTree) (rest : List (List V4)),
    t.restruct pis = some (forest, rest) →
    ∃ used, pis = used ++ rest ∧ used.length = t.gens.length ∧
      (t.posNodes → List.Forall₂ GoodOut t.gens used → sumV4 (leavesL forest) = ⟨t.mass, 0, 0, 0⟩)
  | .leaf m, pis, forest, rest, h => by simp [MTree.restruct] at h
  | .node m ch, pis, forest, rest, h => by
    simp only [MTree.restruct] at h
    cases hL : restructL ch pis with
    | none => rw [hL] at h; simp at h
    | some q =>
      obtain ⟨subs, pis1⟩ := q
      rw [hL] at h
      simp only at h
      cases pis1 with
      | nil => simp at h
      | cons pi pis2 =>
        simp only [Option.some.injEq, Prod.mk.injEq] at h
        obtain ⟨hf, hr⟩ := h
        subst hf; subst hr
        obtain ⟨used1, hu1, hlen1, hsubs⟩ := restructL_sum ch pis subs (pi :: pis2) hL
        refine ⟨used1 ++ [pi], by rw [hu1]; simp, by simp [MTree.gens, hlen1], ?_⟩
        intro hpos hgood
        simp only [MTree.posNodes] at hpos
        simp only [MTree.gens] at hgood
        obtain ⟨hg1, hg2⟩ := forall₂_split _ _ _ _ hlen1.symm hgood
        obtain ⟨hsubsOK, hsl⟩ := hsubs hpos.2 hg1
        cases hg2 with
        | cons hgo _ =>
          obtain ⟨hsum, hshell, hE⟩ := hgo
          have hlen : subs.length = pi.length := by
            have := hshell.length_eq
            simp at this
            omega
          rw [attach_sum subs pi hlen (attach_hyp ch subs pi hpos.2 hsubsOK hshell hE)]
          simpa [MTree.mass] using hsum
theorem restructL_sum : ∀ (ch : List MTree) (pis : List (List V4)) (subs : List (Option (List PTree))) (rest : List (List V4)),
    restructL ch pis = some (subs, rest) →
    ∃ used, pis = used ++ rest ∧ used.length = (gensL ch).length ∧
      (posNodesL ch → List.Forall₂ GoodOut (gensL ch) used → List.Forall₂ SubOK ch subs ∧ subs.length = ch.length)
  | [], pis, subs, rest, h => by
    simp only [restructL, Option.some.injEq, Prod.mk.injEq] at h
    obtain ⟨h1, h2⟩ := h
    subst h1; subst h2
    exact ⟨[], by simp, by simp [gensL], fun _ _ => ⟨List.Forall₂.nil, rfl⟩⟩
  | .leaf m :: ts, pis, subs, rest, h => by
    simp only [restructL] at h
    cases hL : restructL ts pis with
    | none => rw [hL] at h; simp at h
    | some q =>
      obtain ⟨r, pis1⟩ := q
      rw [hL] at h
      simp only [Option.some.injEq, Prod.mk.injEq] at h
      obtain ⟨h1, h2⟩ := h
      subst h1; subst h2
      obtain ⟨used, hu, hlen, hs⟩ := restructL_sum ts pis r pis1 hL
      refine ⟨used, hu, by simpa [gensL, MTree.gens] using hlen, ?_⟩
      intro hpos hgood
      simp only [posNodesL] at hpos
      simp only [gensL, MTree.gens, List.nil_append] at hgood
      obtain ⟨a, b⟩ := hs hpos.2 hgood
      exact ⟨List.Forall₂.cons (by simp [SubOK]) a, by simp [b]⟩
  | .node m c :: ts, pis, subs, rest, h => by
    simp only [restructL] at h
    cases hT : MTree.restruct (.node m c) pis with
    | none => rw [hT] at h; simp at h
    | some q =>
      obtain ⟨sub, pis1⟩ := q
      rw [hT] at h
      simp only at h
      cases hL : restructL ts pis1 with
      | none => rw [hL] at h; simp at h
      | some q2 =>
        obtain ⟨r, pis2⟩ := q2
        rw [hL] at h
        simp only [Option.some.injEq, Prod.mk.injEq] at h
        obtain ⟨h1, h2⟩ := h
        subst h1; subst h2
        obtain ⟨usedT, huT, hlenT, hsT⟩ := restruct_sum (.node m c) pis sub pis1 hT
        obtain ⟨usedL, huL, hlenL, hsL⟩ := restructL_sum ts pis1 r pis2 hL
        refine ⟨usedT ++ usedL, by rw [huT, huL]; simp, by simp [gensL, hlenT, hlenL], ?_⟩
        intro hpos hgood
        simp only [posNodesL] at hpos
        simp only [gensL] at hgood
        obtain ⟨hg1, hg2⟩ := forall₂_split _ _ _ _ hlenT.symm hgood
        obtain ⟨a, b⟩ := hsL hpos.2 hg2
        have := hsT hpos.1 hg1
        exact ⟨List.Forall₂.cons (by simpa [SubOK, MTree.mass] using this) a, by simp [b]⟩
end

end TfPwaV.PhspR
