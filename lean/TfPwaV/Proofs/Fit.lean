import TfPwaV.Model.Fit
import TfPwaV.Proofs.Vars
/-! Helper lemmas for C08 (core Lean only): what the bulk writers store, what the evaluations of the minimiser can
and cannot change, the frame of `standard_complex`, loading a saved map into a fresh model. -/
namespace TfPwaV.Fit
open TfPwaV.Vars

variable {V : Type}

/-! ### fields that value-level calls never touch: registered bounds and masks -/

/-- `t` has the registered bounds and the mask of `s` -/
def BM (s t : State V) : Prop := t.bnd = s.bnd ∧ t.mask = s.mask

theorem BM.refl (s : State V) : BM s s := ⟨rfl, rfl⟩
theorem BM.trans {s t u : State V} (h1 : BM s t) (h2 : BM t u) : BM s u := ⟨h2.1.trans h1.1, h2.2.trans h1.2⟩

theorem BM_assign (s : State V) (c : Nat) (v : V) : BM s (assign s c v) := ⟨rfl, rfl⟩

theorem BM_assignN (s : State V) (n : Name) (v : V) : BM s (assignN s n v) := by
  unfold assignN; split
  · exact BM_assign ..
  · exact BM.refl s

theorem BM_setV (A : Arith V) (s : State V) (n : Name) (v : V) (b : Bool) : BM s (setV A s n v b) := by
  unfold setV; exact BM_assignN ..

theorem BM_setAllListAux (A : Arith V) (b : Bool) (s : State V) (ns : List Name) (vs : List V) :
    BM s (setAllListAux A b s ns vs).1 := by
  induction ns generalizing s vs with
  | nil => simp [setAllListAux]; exact BM.refl s
  | cons n ns ih =>
    cases vs with
    | nil => simp [setAllListAux]; exact BM.refl s
    | cons v vs =>
      simp only [setAllListAux]
      exact BM.trans (BM_setV A s n v b) (ih _ _)

theorem BM_setAllDict (A : Arith V) (s : State V) (d : Dict V) (b : Bool) : BM s (setAllDict A s d b) := by
  unfold setAllDict
  induction d generalizing s with
  | nil => exact BM.refl s
  | cons kv t ih => rw [List.foldl_cons]; exact BM.trans (BM_setV A s kv.1 kv.2 b) (ih _)

theorem BM_spreadFlag (s : State V) (n : Name) (f : Bool) : BM s (spreadFlag s n f) := by
  unfold spreadFlag; split
  · exact BM.refl s
  · exact ⟨rfl, rfl⟩

theorem BM_xy2rp (A : Arith V) (s : State V) (n : Name) : BM s (xy2rp A s n).1 := by
  unfold xy2rp
  split
  · exact BM.refl s
  · split
    · exact BM.refl s
    · split
      · exact BM.trans (s := s) ⟨rfl, rfl⟩ (BM_spreadFlag _ _ _)
      · exact BM.refl s

theorem BM_stdPolar (A : Arith V) (cfg : Cfg) (s : State V) (n : Name) : BM s (stdPolar A cfg s n).1 := by
  unfold stdPolar
  have h := BM_xy2rp A s n
  revert h
  cases xy2rp A s n with
  | mk s1 ok =>
    intro h
    cases ok
    · exact h
    · simp only
      split
      · refine BM.trans h ?_
        simp only
        split <;> split <;> exact ⟨rfl, rfl⟩
      · exact h

theorem BM_forNames (f : State V → Name → State V × Bool) (hf : ∀ s n, BM s (f s n).1) (s : State V) (l : List Name) :
    BM s (forNames f s l).1 := by
  induction l generalizing s with
  | nil => exact BM.refl s
  | cons n t ih =>
    unfold forNames
    have h := hf s n
    revert h
    cases f s n with
    | mk s1 ok =>
      intro h
      cases ok
      · exact h
      · exact BM.trans h (ih s1)

theorem BM_standardComplex (A : Arith V) (cfg : Cfg) (s : State V) (bd : List Name) : BM s (standardComplex A cfg s bd).1 := by
  unfold standardComplex
  apply BM_forNames
  intro s k
  split
  · simp only
    split
    · exact BM.refl s
    · exact BM_stdPolar A cfg s k
  · exact BM.refl s

/-! ### what `set_all(list)` and `set_trans_var` store -/

/-- the listed names are bound, and to pairwise different objects -/
def Distinct (s : State V) (ns : List Name) : Prop :=
  ns.Pairwise (fun a b => cellOf s a ≠ cellOf s b) ∧ ∀ n ∈ ns, ∃ c, cellOf s n = some c

theorem Distinct.of_skel {s t : State V} (h : t.skel = s.skel) {ns : List Name} (hd : Distinct s ns) : Distinct t ns := by
  have hv := ((skel_eq_iff t s).1 h).1
  have hc : ∀ n, cellOf t n = cellOf s n := fun n => by unfold cellOf; rw [hv]
  refine ⟨hd.1.imp (fun {a b} hab => by rw [hc a, hc b]; exact hab), fun n hn => ?_⟩
  rw [hc n]; exact hd.2 n hn

theorem Inv.distinct {s : State V} (hi : Inv s) : Distinct s s.trainable := by
  refine ⟨hi.nodup.imp_of_mem (fun {a b} ha hb hab => hi.once a ha b hb hab), fun n hn => ?_⟩
  exact (dhas_iff _ _).1 (hi.sub n hn)

theorem readN_assignN (s : State V) (n : Name) (v : V) (c : Nat) (hc : cellOf s n = some c) :
    readN (assignN s n v) n = some v := by
  unfold assignN readN
  rw [hc]
  simp [assign, cellOf, upd] at *
  rw [hc]
  simp

/-- `set_all(list)` stores `vs[i]` in the i-th listed name when the names are on different objects -/
theorem setAllListAux_writes (A : Arith V) (s : State V) (ns : List Name) (vs : List V) (hd : Distinct s ns) :
    ∀ p ∈ ns.zip vs, readN (setAllListAux A false s ns vs).1 p.1 = some p.2 := by
  induction ns generalizing s vs with
  | nil => intro p hp; simp at hp
  | cons n ns ih =>
    cases vs with
    | nil => intro p hp; simp at hp
    | cons v vs =>
      intro p hp
      simp only [setAllListAux]
      have hsk : (setV A s n v false).skel = s.skel := setV_skel A s n v false
      have hd1 : Distinct (setV A s n v false) ns :=
        Distinct.of_skel hsk ⟨(List.pairwise_cons.1 hd.1).2, fun m hm => hd.2 m (by simp [hm])⟩
      simp only [List.zip_cons_cons, List.mem_cons] at hp
      rcases hp with rfl | hp
      · obtain ⟨c, hc⟩ := hd.2 n (by simp)
        have hc1 : cellOf (setV A s n v false) n = some c := by
          have hv := ((skel_eq_iff _ _).1 hsk).1
          unfold cellOf; rw [hv]; exact hc
        have hframe : HF c (setV A s n v false) (setAllListAux A false (setV A s n v false) ns vs).1 := by
          apply HF_setAllListAux
          intro m hm
          have hne := (List.pairwise_cons.1 hd.1).1 m hm
          have hv := ((skel_eq_iff _ _).1 hsk).1
          intro e
          apply hne
          rw [hc]
          have : cellOf (setV A s n v false) m = cellOf s m := by unfold cellOf; rw [hv]
          rw [← this, e]
        rw [hframe.read_eq n hc1]
        unfold setV
        simp only [Bool.false_eq_true, if_false]
        exact readN_assignN s n v c hc
      · exact ih _ vs hd1 p hp

theorem transVals_zip (A : Arith V) (s : State V) (ns : List Name) (xs : List V) (h : xs.length = ns.length) :
    transVals A s ns xs = some (List.zipWith (yOf A s.bnd) ns xs) := by
  induction ns generalizing xs with
  | nil =>
    cases xs with
    | nil => rfl
    | cons x xs => simp at h
  | cons n ns ih =>
    cases xs with
    | nil => simp at h
    | cons x xs =>
      simp only [List.length_cons, Nat.add_right_cancel_iff] at h
      simp only [transVals, ih xs h, Option.map_some, List.zipWith_cons_cons]
      rfl

theorem mem_zip_zipWith {α β γ : Type} (f : α → β → γ) (as : List α) (bs : List β) (a : α) (b : β)
    (h : (a, b) ∈ as.zip bs) : (a, f a b) ∈ as.zip (List.zipWith f as bs) := by
  induction as generalizing bs with
  | nil => simp at h
  | cons a0 as ih =>
    cases bs with
    | nil => simp at h
    | cons b0 bs =>
      simp only [List.zip_cons_cons, List.mem_cons, Prod.mk.injEq] at h
      simp only [List.zipWith_cons_cons, List.zip_cons_cons, List.mem_cons, Prod.mk.injEq]
      rcases h with ⟨rfl, rfl⟩ | h
      · exact Or.inl ⟨rfl, rfl⟩
      · exact Or.inr (ih bs h)

/-- `set_trans_var(xs)` stores, for the i-th free parameter, `xs[i]` mapped through its registered bound -/
theorem setTransVar_writes (A : Arith V) (cfg : Cfg) (s : State V) (xs : List V) (hd : Distinct s s.trainable)
    (hx : xs.length = s.trainable.length) :
    ∀ p ∈ s.trainable.zip xs, readN (step A cfg s (.setTransVar xs)).1 p.1 = some (yOf A s.bnd p.1 p.2) := by
  intro p hp
  simp only [step, transVals_zip A s s.trainable xs hx, okOut_fst]
  have := setAllListAux_writes A s s.trainable (List.zipWith (yOf A s.bnd) s.trainable xs) hd
    (p.1, yOf A s.bnd p.1 p.2) (mem_zip_zipWith _ _ _ p.1 p.2 hp)
  exact this

theorem setAllList_writes (A : Arith V) (cfg : Cfg) (s : State V) (xs : List V) (hd : Distinct s s.trainable) :
    ∀ p ∈ s.trainable.zip xs, readN (step A cfg s (.setAllList xs false)).1 p.1 = some p.2 := by
  intro p hp
  simp only [step, okOut_fst]
  exact setAllListAux_writes A s s.trainable xs hd p hp

/-! ### the evaluations of the minimiser -/

theorem evalOp_structural (e : Eval V) : structural e.op = false := by cases e <;> rfl

theorem step_eval_skel (A : Arith V) (cfg : Cfg) (s : State V) (e : Eval V) : (step A cfg s e.op).1.skel = s.skel :=
  step_skel A cfg s e.op (evalOp_structural e)

theorem step_setTransVar_BM (A : Arith V) (cfg : Cfg) (s : State V) (xs : List V) : BM s (step A cfg s (.setTransVar xs)).1 := by
  simp only [step]
  split
  · exact BM.refl s
  · exact BM_setAllListAux ..

theorem step_setAllList_BM (A : Arith V) (cfg : Cfg) (s : State V) (xs : List V) (b : Bool) :
    BM s (step A cfg s (.setAllList xs b)).1 := BM_setAllListAux ..

theorem step_eval_BM (A : Arith V) (cfg : Cfg) (s : State V) (e : Eval V) : BM s (step A cfg s e.op).1 := by
  cases e
  · exact step_setTransVar_BM ..
  · exact step_setAllList_BM ..

theorem step_setTransVar_HF (A : Arith V) (cfg : Cfg) (c : Nat) (s : State V) (xs : List V) (h : FixedCell s c) :
    HF c s (step A cfg s (.setTransVar xs)).1 := by
  simp only [step]
  split
  · exact HF.refl c s
  · exact HF_setAllList A c s _ false h

theorem step_eval_HF (A : Arith V) (cfg : Cfg) (c : Nat) (s : State V) (e : Eval V) (h : FixedCell s c) :
    HF c s (step A cfg s e.op).1 := by
  cases e
  · exact step_setTransVar_HF A cfg c s _ h
  · exact HF_setAllList A c s _ false h

/-- whatever the minimiser evaluates: bindings, free list, tie groups, registered bounds, masks are as before, and
no cell without a free name has moved -/
theorem run_evals (A : Arith V) (cfg : Cfg) (s : State V) (es : List (Eval V)) :
    (run A cfg s (es.map Eval.op)).skel = s.skel ∧ BM s (run A cfg s (es.map Eval.op)) ∧
      ∀ c, FixedCell s c → HF c s (run A cfg s (es.map Eval.op)) := by
  induction es generalizing s with
  | nil => exact ⟨rfl, BM.refl s, fun c _ => HF.refl c s⟩
  | cons e es ih =>
    simp only [List.map_cons, run]
    obtain ⟨h1, h2, h3⟩ := ih (step A cfg s e.op).1
    refine ⟨h1.trans (step_eval_skel A cfg s e), BM.trans (step_eval_BM A cfg s e) h2, fun c hc => ?_⟩
    have hf := step_eval_HF A cfg c s e hc
    exact HF.trans hf (h3 c (hc.of_HF hf))

theorem setBound_skel (s : State V) (b : Dict (Option V × Option V)) : (setBound s b).skel = s.skel := rfl
theorem setBound_heap (s : State V) (b : Dict (Option V × Option V)) : (setBound s b).heap = s.heap := rfl
theorem setBound_mask (s : State V) (b : Dict (Option V × Option V)) : (setBound s b).mask = s.mask := rfl

/-! ### the frame of `standard_complex` -/

/-- the object `c` is not the `r` or `i` component of any complex parameter -/
def NotCplxPart (s : State V) (c : Nat) : Prop :=
  ∀ k ∈ dkeys s.cplx, cellOf s (k ++ "r") ≠ some c ∧ cellOf s (k ++ "i") ≠ some c

theorem HF_stdPolar (A : Arith V) (cfg : Cfg) (c : Nat) (s : State V) (name : Name)
    (hr : cellOf s (name ++ "r") ≠ some c) (hi : cellOf s (name ++ "i") ≠ some c) : HF c s (stdPolar A cfg s name).1 := by
  unfold stdPolar
  have h := HF_xy2rp A c s name hr hi
  revert h
  cases xy2rp A s name with
  | mk s1 ok =>
    intro h
    cases ok
    · exact h
    · simp only
      split
      · next cr ci hcr hci =>
        have h1 : cr ≠ c := fun e => hr (by rw [← h.cell_eq, hcr, e])
        have h2 : ci ≠ c := fun e => hi (by rw [← h.cell_eq, hci, e])
        refine HF.trans h ?_
        simp only
        have key : ∀ (b : Bool), HF c s1 (if b = true then assign (assign s1 cr (A.abs (s1.heap cr).val)) ci
            (A.add ((assign s1 cr (A.abs (s1.heap cr).val)).heap ci).val A.pi) else s1) := by
          intro b; split
          · exact HF.trans (HF_assign c cr s1 _ h1) (HF_assign c ci _ _ h2)
          · exact HF.refl c s1
        split
        · exact HF.trans (key _) (HF_assign c ci _ _ h2)
        · exact key _
      · exact h

theorem HF_forNames_cells (c : Nat) (f : State V → Name → State V × Bool) (s0 : State V) (l : List Name)
    (hf : ∀ s k, k ∈ l → (∀ n, cellOf s n = cellOf s0 n) → HF c s (f s k).1) (s : State V)
    (hs : ∀ n, cellOf s n = cellOf s0 n) : HF c s (forNames f s l).1 := by
  induction l generalizing s with
  | nil => exact HF.refl c s
  | cons k t ih =>
    unfold forNames
    have h := hf s k (by simp) hs
    revert h
    cases f s k with
    | mk s1 ok =>
      intro h
      cases ok
      · exact h
      · refine HF.trans h (ih (fun s' k' hk' hs' => hf s' k' (by simp [hk']) hs') s1 ?_)
        intro n; rw [h.cell_eq, hs]

theorem dkeys_mem_of_dget {β : Type} (d : Dict β) (k : Name) (v : β) (h : dget d k = some v) : k ∈ dkeys d := by
  induction d with
  | nil => simp [dget] at h
  | cons hd t ih =>
    obtain ⟨k', v'⟩ := hd
    unfold dkeys
    simp only [dget] at h
    by_cases hk : k' = k
    · simp [hk]
    · simp only [hk, if_false] at h
      simp only [List.map_cons, List.mem_cons]
      exact Or.inr (ih h)

/-- `standard_complex` writes only into components of complex parameters -/
theorem HF_standardComplex (A : Arith V) (cfg : Cfg) (c : Nat) (s : State V) (bd : List Name) (h : NotCplxPart s c) :
    HF c s (standardComplex A cfg s bd).1 := by
  unfold standardComplex
  apply HF_forNames_cells c _ s (dkeys s.cplx) _ s (fun _ => rfl)
  intro s' k hk hs'
  split
  · simp only
    split
    · exact HF.refl c s'
    · have := h k hk
      exact HF_stdPolar A cfg c s' k (by rw [hs']; exact this.1) (by rw [hs']; exact this.2)
  · exact HF.refl c s'

/-! ### loading a saved map into a fresh model -/

/-- after `set_all(d)`: a cell holds the value `d` lists for a name bound to it, or what it held before when `d`
lists no such name — provided all entries for one object agree (they were read from one model `s'`) -/
theorem setAllDict_cells (A : Arith V) (s' : State V) (d : Dict V) (hd : ∀ kv ∈ d, readN s' kv.1 = some kv.2)
    (s0 : State V) (hv : s0.vars = s'.vars) :
    (setAllDict A s0 d false).vars = s'.vars ∧
    ∀ c, ((setAllDict A s0 d false).heap c).val = (s'.heap c).val ∨
      ((setAllDict A s0 d false).heap c = s0.heap c ∧ ∀ kv ∈ d, cellOf s' kv.1 ≠ some c) := by
  unfold setAllDict
  induction d generalizing s0 with
  | nil => exact ⟨hv, fun c => Or.inr ⟨rfl, fun kv h => by simp at h⟩⟩
  | cons kv t ih =>
    rw [List.foldl_cons]
    have hv1 : (setV A s0 kv.1 kv.2 false).vars = s'.vars := by rw [setV_vars]; exact hv
    obtain ⟨h1, h2⟩ := ih (fun kv' hkv => hd kv' (by simp [hkv])) (setV A s0 kv.1 kv.2 false) hv1
    refine ⟨h1, fun c => ?_⟩
    rcases h2 c with h | ⟨h, hno⟩
    · exact Or.inl h
    · -- the tail did not write `c`: what did the head do?
      have hkv := hd kv (by simp)
      rw [h]
      unfold setV assignN
      simp only [Bool.false_eq_true, if_false]
      have hcell : cellOf s0 kv.1 = cellOf s' kv.1 := by unfold cellOf; rw [hv]
      cases hc : cellOf s' kv.1 with
      | none =>
        rw [hcell, hc]
        refine Or.inr ⟨rfl, fun kv' hkv' => ?_⟩
        simp only [List.mem_cons] at hkv'
        rcases hkv' with rfl | hkv'
        · rw [hc]; simp
        · exact hno kv' hkv'
      | some c' =>
        rw [hcell, hc]
        by_cases hcc : c' = c
        · subst hcc
          left
          unfold readN at hkv
          rw [hc] at hkv
          simp only [Option.map_some, Option.some.injEq] at hkv
          simp [assign, upd, hkv]
        · right
          refine ⟨by simp [assign, upd, Ne.symm hcc], fun kv' hkv' => ?_⟩
          simp only [List.mem_cons] at hkv'
          rcases hkv' with rfl | hkv'
          · rw [hc]; simp [hcc]
          · exact hno kv' hkv'

/-- **loading reproduces the stored values**: `d` lists values read from the fitted model `s'`; the fresh model `s0`
has the same bindings and already agrees with `s'` on every name `d` does not list. -/
theorem load_reads (A : Arith V) (s' s0 : State V) (d : Dict V) (hv : s0.vars = s'.vars)
    (hd : ∀ kv ∈ d, readN s' kv.1 = some kv.2)
    (hrest : ∀ n, (∀ kv ∈ d, cellOf s' kv.1 ≠ cellOf s' n) → readN s0 n = readN s' n) :
    ∀ n, readN (setAllDict A s0 d false) n = readN s' n := by
  intro n
  obtain ⟨h1, h2⟩ := setAllDict_cells A s' d hd s0 hv
  unfold readN
  have hc : cellOf (setAllDict A s0 d false) n = cellOf s' n := by unfold cellOf; rw [h1]
  rw [hc]
  cases hcn : cellOf s' n with
  | none => rfl
  | some c =>
    simp only [Option.map_some, Option.some.injEq]
    rcases h2 c with h | ⟨h, hno⟩
    · exact h
    · rw [h]
      have := hrest n (fun kv hkv => by rw [hcn]; exact hno kv hkv)
      unfold readN at this
      have hc0 : cellOf s0 n = cellOf s' n := by unfold cellOf; rw [hv]
      rw [hc0, hcn] at this
      simpa using this

/-! ### coordinate flags are not touched by the bulk writers -/

theorem assignN_cplx (s : State V) (n : Name) (v : V) : (assignN s n v).cplx = s.cplx := by
  unfold assignN; split <;> rfl

theorem setAllListAux_cplx (A : Arith V) (b : Bool) (s : State V) (ns : List Name) (vs : List V) :
    (setAllListAux A b s ns vs).1.cplx = s.cplx := by
  induction ns generalizing s vs with
  | nil => simp [setAllListAux]
  | cons n ns ih =>
    cases vs with
    | nil => simp [setAllListAux]
    | cons v vs =>
      simp only [setAllListAux]
      rw [ih]; unfold setV; exact assignN_cplx ..

theorem step_setTransVar_cplx (A : Arith V) (cfg : Cfg) (s : State V) (xs : List V) :
    (step A cfg s (.setTransVar xs)).1.cplx = s.cplx := by
  simp only [step]
  split
  · rfl
  · exact setAllListAux_cplx ..

theorem step_setAllList_cplx (A : Arith V) (cfg : Cfg) (s : State V) (xs : List V) (b : Bool) :
    (step A cfg s (.setAllList xs b)).1.cplx = s.cplx := setAllListAux_cplx ..

theorem run_evals_cplx (A : Arith V) (cfg : Cfg) (s : State V) (es : List (Eval V)) :
    (run A cfg s (es.map Eval.op)).cplx = s.cplx := by
  induction es generalizing s with
  | nil => rfl
  | cons e es ih =>
    simp only [List.map_cons, run]
    rw [ih]
    cases e
    · exact step_setTransVar_cplx ..
    · exact step_setAllList_cplx ..

/-! ### the clauses of the property, and the tail of `fit_scipy` -/

/-- "the result and the model state describe the same point", for a branch whose last write stores `y name x_i`
in the i-th free parameter.  `s` is the state before the fit, `s'` the state after, `r` the returned result. -/
structure Matches (A : Arith V) (s s' : State V) (r : FitResult V) (stdc : Bool) (y : Name → V → V) (x : List V) : Prop where
  /-- the result lists every parameter of the model … -/
  params_all : r.params = getAllDic A s' false
  /-- … with exactly the value the model holds -/
  params_read : ∀ kv ∈ r.params, readN s' kv.1 = some kv.2
  vars : s'.vars = s.vars
  trainable : s'.trainable = s.trainable
  same : s'.same = s.same
  /-- names bound to one object read the same value -/
  tied : ∀ a b, cellOf s a = cellOf s b → readN s' a = readN s' b
  /-- a parameter without a free name on its object keeps its value (components of complex parameters: only when
  the polar standardisation is off) -/
  fixed : ∀ n c, cellOf s n = some c → FixedCell s c → (stdc = true → NotCplxPart s c) → readN s' n = readN s n
  /-- the model holds the minimiser's ANSWER (not the last evaluated point) -/
  answer : ∀ p ∈ s.trainable.zip x, ∀ c, cellOf s p.1 = some c → (stdc = true → NotCplxPart s c) →
    readN s' p.1 = some (y p.1 p.2)
  ndf : r.ndf = x.length

theorem finish_facts (A : Arith V) (cfg : Cfg) (stdc : Bool) (t : State V) (o : Oracle V) (bd : List Name) :
    (finish A cfg stdc t o bd).2 = .ok ⟨getAllDic A (finish A cfg stdc t o bd).1 false, o.fval, o.x.length, o.success⟩ ∧
    (finish A cfg stdc t o bd).1.skel = t.skel ∧ BM t (finish A cfg stdc t o bd).1 ∧
    ∀ c, (stdc = true → NotCplxPart t c) → HF c t (finish A cfg stdc t o bd).1 := by
  cases stdc
  · exact ⟨rfl, rfl, BM.refl t, fun c _ => HF.refl c t⟩
  · exact ⟨rfl, standardComplex_skel A cfg t bd, BM_standardComplex A cfg t bd, fun c h => HF_standardComplex A cfg c t bd (h rfl)⟩

theorem cellOf_of_skel {s t : State V} (h : t.skel = s.skel) (n : Name) : cellOf t n = cellOf s n := by
  unfold cellOf; rw [((skel_eq_iff t s).1 h).1]

/-- assembling the clauses: `s2` is the state after the branch's last write, `t` differs from it at most in the
registered bounds, the branch ends with `finish` -/
theorem finish_matches (A : Arith V) (cfg : Cfg) (stdc : Bool) (s s2 t : State V) (o : Oracle V) (y : Name → V → V)
    (hsk : s2.skel = s.skel) (hmask : s2.mask = []) (hcplx : s2.cplx = s.cplx)
    (hfix : ∀ c, FixedCell s c → HF c s s2)
    (hw : ∀ p ∈ s.trainable.zip o.x, readN s2 p.1 = some (y p.1 p.2))
    (ht : t.skel = s2.skel ∧ t.heap = s2.heap ∧ t.mask = s2.mask ∧ t.cplx = s2.cplx) (bd : List Name) :
    ∃ r, (finish A cfg stdc t o bd).2 = .ok r ∧ Matches A s (finish A cfg stdc t o bd).1 r stdc y o.x := by
  obtain ⟨h1, h2, h3, h4⟩ := finish_facts A cfg stdc t o bd
  refine ⟨_, h1, ?_⟩
  have hsk' : (finish A cfg stdc t o bd).1.skel = s.skel := h2.trans (ht.1.trans hsk)
  have hts : t.skel = s.skel := ht.1.trans hsk
  obtain ⟨e1, e2, e3, _⟩ := (skel_eq_iff _ _).1 hsk'
  have hm' : (finish A cfg stdc t o bd).1.mask = [] := by rw [h3.2, ht.2.2.1, hmask]
  have hncp : ∀ c, NotCplxPart s c → NotCplxPart t c := by
    intro c h k hk
    rw [ht.2.2.2, hcplx] at hk
    rw [cellOf_of_skel hts, cellOf_of_skel hts]
    exact h k hk
  have hread_t : ∀ n, readN t n = readN s2 n := by
    intro n; unfold readN; rw [cellOf_of_skel ht.1, ht.2.1]
  refine ⟨rfl, getAllDic_reads A _ hm' false, e1, e2, e3, ?_, ?_, ?_, rfl⟩
  · intro a b hab
    apply read_eq_of_cell_eq
    rw [cellOf_of_skel hsk', cellOf_of_skel hsk']; exact hab
  · intro n c hn hf hs
    have hA := h4 c (fun e => hncp c (hs e))
    rw [hA.read_eq n (by rw [cellOf_of_skel hts]; exact hn), hread_t]
    exact (hfix c hf).read_eq n hn
  · intro p hp c hc hs
    have hA := h4 c (fun e => hncp c (hs e))
    rw [hA.read_eq p.1 (by rw [cellOf_of_skel hts]; exact hc), hread_t]
    exact hw p hp

/-- the state in which the minimiser returns, for the branches that register the bounds -/
theorem afterEvals_bounded (A : Arith V) (cfg : Cfg) (s : State V) (b : Dict (Option V × Option V)) (es : List (Eval V)) :
    let s1 := run A cfg (setBound s b) (es.map Eval.op)
    s1.skel = s.skel ∧ s1.bnd = (setBound s b).bnd ∧ s1.mask = s.mask ∧ s1.cplx = s.cplx ∧ ∀ c, FixedCell s c → HF c s s1 := by
  intro s1
  obtain ⟨h1, h2, h3⟩ := run_evals A cfg (setBound s b) es
  refine ⟨h1, h2.1, h2.2, run_evals_cplx A cfg (setBound s b) es, fun c hc => ?_⟩
  have h0 : HF c s (setBound s b) := ⟨rfl, rfl⟩
  exact HF.trans h0 (h3 c (hc.of_HF h0))

theorem afterEvals_plain (A : Arith V) (cfg : Cfg) (s : State V) (es : List (Eval V)) :
    let s1 := run A cfg s (es.map Eval.op)
    s1.skel = s.skel ∧ s1.bnd = s.bnd ∧ s1.mask = s.mask ∧ s1.cplx = s.cplx ∧ ∀ c, FixedCell s c → HF c s s1 := by
  intro s1
  obtain ⟨h1, h2, h3⟩ := run_evals A cfg s es
  exact ⟨h1, h2.1, h2.2, run_evals_cplx A cfg s es, h3⟩

theorem transWrite_core (A : Arith V) (cfg : Cfg) (s s1 : State V) (bnd0 : Dict (Option V × Option V)) (x : List V)
    (hi : Inv s) (hm : s.mask = []) (hx : x.length = s.trainable.length)
    (h1 : s1.skel = s.skel) (h2 : s1.bnd = bnd0) (h3 : s1.mask = s.mask) (h4 : s1.cplx = s.cplx)
    (h5 : ∀ c, FixedCell s c → HF c s s1) :
    (step A cfg s1 (.setTransVar x)).1.skel = s.skel ∧ (step A cfg s1 (.setTransVar x)).1.mask = [] ∧
    (step A cfg s1 (.setTransVar x)).1.cplx = s.cplx ∧ (step A cfg s1 (.setTransVar x)).1.bnd = bnd0 ∧
    (∀ c, FixedCell s c → HF c s (step A cfg s1 (.setTransVar x)).1) ∧
    ∀ p ∈ s.trainable.zip x, readN (step A cfg s1 (.setTransVar x)).1 p.1 = some (yOf A bnd0 p.1 p.2) := by
  have hsk2 : (step A cfg s1 (.setTransVar x)).1.skel = s1.skel := step_skel A cfg s1 (.setTransVar x) rfl
  have hbm := step_setTransVar_BM A cfg s1 x
  have htr : s1.trainable = s.trainable := ((skel_eq_iff _ _).1 h1).2.1
  refine ⟨hsk2.trans h1, by rw [hbm.2, h3, hm], (step_setTransVar_cplx A cfg s1 x).trans h4, hbm.1.trans h2, ?_, ?_⟩
  · intro c hc
    have hf := h5 c hc
    exact HF.trans hf (step_setTransVar_HF A cfg c s1 x (hc.of_HF hf))
  · intro p hp
    have hd : Distinct s1 s1.trainable := by rw [htr]; exact Distinct.of_skel h1 (Inv.distinct hi)
    have := setTransVar_writes A cfg s1 x hd (by rw [htr]; exact hx) p (by rw [htr]; exact hp)
    rw [h2] at this
    exact this

/-- after `set_bound`, any evaluations and `set_trans_var(x)` -/
theorem transWrite_facts (A : Arith V) (cfg : Cfg) (s : State V) (b : Dict (Option V × Option V)) (es : List (Eval V))
    (x : List V) (hi : Inv s) (hm : s.mask = []) (hx : x.length = s.trainable.length) :
    let s2 := (step A cfg (run A cfg (setBound s b) (es.map Eval.op)) (.setTransVar x)).1
    s2.skel = s.skel ∧ s2.mask = [] ∧ s2.cplx = s.cplx ∧ s2.bnd = (setBound s b).bnd ∧ (∀ c, FixedCell s c → HF c s s2) ∧
    ∀ p ∈ s.trainable.zip x, readN s2 p.1 = some (yOf A (setBound s b).bnd p.1 p.2) := by
  obtain ⟨h1, h2, h3, h4, h5⟩ := afterEvals_bounded A cfg s b es
  exact transWrite_core A cfg s _ _ x hi hm hx h1 h2 h3 h4 h5

theorem rawWrite_core (A : Arith V) (cfg : Cfg) (s s1 : State V) (x : List V) (hi : Inv s) (hm : s.mask = [])
    (h1 : s1.skel = s.skel) (h2 : s1.bnd = s.bnd) (h3 : s1.mask = s.mask) (h4 : s1.cplx = s.cplx)
    (h5 : ∀ c, FixedCell s c → HF c s s1) :
    (step A cfg s1 (.setAllList x false)).1.skel = s.skel ∧ (step A cfg s1 (.setAllList x false)).1.mask = [] ∧
    (step A cfg s1 (.setAllList x false)).1.cplx = s.cplx ∧ (step A cfg s1 (.setAllList x false)).1.bnd = s.bnd ∧
    (∀ c, FixedCell s c → HF c s (step A cfg s1 (.setAllList x false)).1) ∧
    ∀ p ∈ s.trainable.zip x, readN (step A cfg s1 (.setAllList x false)).1 p.1 = some p.2 := by
  have hsk2 : (step A cfg s1 (.setAllList x false)).1.skel = s1.skel := step_skel A cfg s1 (.setAllList x false) rfl
  have hbm := step_setAllList_BM A cfg s1 x false
  have htr : s1.trainable = s.trainable := ((skel_eq_iff _ _).1 h1).2.1
  refine ⟨hsk2.trans h1, by rw [hbm.2, h3, hm], (step_setAllList_cplx A cfg s1 x false).trans h4, hbm.1.trans h2, ?_, ?_⟩
  · intro c hc
    have hf := h5 c hc
    exact HF.trans hf (HF_setAllList A c s1 x false (hc.of_HF hf))
  · intro p hp
    have hd : Distinct s1 s1.trainable := by rw [htr]; exact Distinct.of_skel h1 (Inv.distinct hi)
    exact setAllList_writes A cfg s1 x hd p (by rw [htr]; exact hp)

/-- after any evaluations and `set_all(x)` (no bounds registered by the branch) -/
theorem rawWrite_facts (A : Arith V) (cfg : Cfg) (s : State V) (es : List (Eval V)) (x : List V) (hi : Inv s) (hm : s.mask = []) :
    let s2 := (step A cfg (run A cfg s (es.map Eval.op)) (.setAllList x false)).1
    s2.skel = s.skel ∧ s2.mask = [] ∧ s2.cplx = s.cplx ∧ s2.bnd = s.bnd ∧ (∀ c, FixedCell s c → HF c s s2) ∧
    ∀ p ∈ s.trainable.zip x, readN s2 p.1 = some p.2 := by
  obtain ⟨h1, h2, h3, h4, h5⟩ := afterEvals_plain A cfg s es
  exact rawWrite_core A cfg s _ x hi hm h1 h2 h3 h4 h5

/-- a toy arithmetic for closed witnesses: values are naturals, the bound transform is visible (`x2y = +100`) -/
def arithN : Arith Nat :=
  ⟨id, id, id, id, fun _ x => x, Nat.add, Nat.sub, Nat.mul, fun _ => false, 3, id, fun _ _ x => x + 100,
   fun _ _ y => y - 100, fun _ _ x => x, fun _ _ x => x, id⟩

/-- a second toy arithmetic, on integers, in which the polar standardisation is visible: `r < 0` is detected,
`pi = 3`, `_std_polar_angle` wraps `p ≥ 3` down by 6, the bound transform is `x2y = +100` -/
def arithZ : Arith Int :=
  ⟨id, id, id, fun x => Int.ofNat x.natAbs, fun _ x => x, Int.add, Int.sub, Int.mul, fun x => decide (x < 0), 3,
   fun p => if p ≥ 3 then p - 6 else p, fun _ _ x => x + 100, fun _ _ y => y - 100, fun _ _ x => x, fun _ _ x => x, id⟩

end TfPwaV.Fit
