import TfPwaV.Proofs.EinsumLoop

/-! C05 (einsum): a non-empty path that reduces the operands to a single one ends at the output layout, provided the
    order values of the output labels increase along the output. -/
namespace TfPwaV.Einsum

theorem exists_zip_of_mem {α β : Type} : ∀ (l1 : List α) (l2 : List β) (x : α), l1.length = l2.length → x ∈ l1 →
    ∃ y, (x, y) ∈ l1.zip l2
  | [], _, _, _, h => by simp at h
  | _ :: _, [], _, hl, _ => by simp at hl
  | a :: l1, b :: l2, x, hl, h => by
    rcases List.mem_cons.mp h with rfl | h
    · exact ⟨b, by simp⟩
    · obtain ⟨y, hy⟩ := exists_zip_of_mem l1 l2 x (by simpa using hl) h
      exact ⟨y, by simp [hy]⟩

section
variable {R : Type} [CommSemiring R]

omit [CommSemiring R] in
theorem loop_ends [Zero R] [Add R] [Mul R] (sizes key : Idx → Nat) (F : List Idx) (hF : F.Nodup)
    (hmono : F.Pairwise (fun a b => key a < key b)) :
    ∀ (path : List (List Nat)) (data : List (List Idx × Tensor R)) (O : List Idx) (t : Tensor R),
    path ≠ [] → (∀ a ∈ F, ∃ p ∈ data, a ∈ p.1) →
    loop sizes key F path data = .ok [(O, t)] → O = F
  | [], _, _, _, hne, _, _ => absurd rfl hne
  | pos :: path, data, O, t, _, hsub, h => by
    unfold loop at h
    by_cases hbad : (pos.any (· ≥ data.length) || pos.isEmpty || hasDup pos) = true
    · rw [if_pos hbad] at h; simp at h
    · rw [if_neg hbad] at h
      simp only [Bool.or_eq_true, not_or, Bool.not_eq_true] at hbad
      obtain ⟨⟨hlt', _⟩, hnd'⟩ := hbad
      have hposnd : pos.Nodup := nodup_of_hasDup_false pos hnd'
      have hlt : ∀ i ∈ pos, i < data.length := by
        intro i hi
        by_contra hc
        have : pos.any (· ≥ data.length) = true := List.any_eq_true.mpr ⟨i, hi, by simpa using hc⟩
        rw [this] at hlt'
        exact absurd hlt' (by simp)
      simp only at h
      generalize hpart : (pos.filterMap fun i => data[i]?) = part at h
      generalize hrest : removePositions data pos = rest at h
      generalize hlab : labelSet (part.map (·.1)).flatten = labels at h
      generalize hkeep : F ++ (rest.map (·.1)).flatten = keep at h
      generalize houtSet : labels.filter (keep.contains ·) = outSet at h
      by_cases hkd : keysDistinct key outSet = true
      · simp only [hkd, Bool.not_true, Bool.false_eq_true, if_false] at h
        generalize hout : sortBy key outSet = outIdx at h
        cases hstep : stepReduceSum sizes key part outIdx with
        | error e => rw [hstep] at h; simp at h
        | ok r =>
          obtain ⟨O', t'⟩ := r
          rw [hstep] at h
          simp only at h
          have hperm := perm_split data pos hposnd hlt
          rw [hpart, hrest] at hperm
          have hlabnd : labels.Nodup := by rw [← hlab]; exact nodup_labelSet _
          have hmemlab : ∀ a, a ∈ labels ↔ ∃ p ∈ part, a ∈ p.1 := by
            intro a
            rw [← hlab, mem_labelSet, List.mem_flatten]
            constructor
            · rintro ⟨l, hl, ha⟩
              obtain ⟨p, hp, rfl⟩ := List.mem_map.mp hl
              exact ⟨p, hp, ha⟩
            · rintro ⟨p, hp, ha⟩
              exact ⟨p.1, List.mem_map.mpr ⟨p, hp, rfl⟩, ha⟩
          have houtSetnd : outSet.Nodup := by rw [← houtSet]; exact hlabnd.filter _
          have hpermout : outIdx.Perm outSet := by rw [← hout]; exact perm_sortBy key outSet
          have hmemout : ∀ a, a ∈ outIdx ↔ (∃ p ∈ part, a ∈ p.1) ∧ (a ∈ F ∨ ∃ q ∈ rest, a ∈ q.1) := by
            intro a
            rw [hpermout.mem_iff, ← houtSet, List.mem_filter, hmemlab, List.contains_iff_mem, ← hkeep,
              List.mem_append, List.mem_flatten]
            constructor
            · rintro ⟨h1, h2⟩
              refine ⟨h1, ?_⟩
              rcases h2 with h2 | ⟨l, hl, ha⟩
              · exact Or.inl h2
              · obtain ⟨q, hq, rfl⟩ := List.mem_map.mp hl
                exact Or.inr ⟨q, hq, ha⟩
            · rintro ⟨h1, h2⟩
              refine ⟨h1, ?_⟩
              rcases h2 with h2 | ⟨q, hq, ha⟩
              · exact Or.inl h2
              · exact Or.inr ⟨q.1, List.mem_map.mpr ⟨q, hq, rfl⟩, ha⟩
          -- the output labels stay present
          have hsubnew : ∀ a ∈ F, ∃ p ∈ rest ++ [(outIdx, t')], a ∈ p.1 := by
            intro a ha
            obtain ⟨p, hp, hap⟩ := hsub a ha
            rcases List.mem_append.mp (hperm.mem_iff.mp hp) with hp' | hp'
            · exact ⟨(outIdx, t'), by simp, (hmemout a).mpr ⟨⟨p, hp', hap⟩, Or.inl ha⟩⟩
            · exact ⟨p, List.mem_append_left _ hp', hap⟩
          cases path with
          | cons pos' path' =>
            exact loop_ends sizes key F hF hmono (pos' :: path') _ O t (by simp) hsubnew h
          | nil =>
            simp only [loop, Except.ok.injEq] at h
            -- rest = [] and the single operand is the new one
            have hrestnil : rest = [] := by
              cases rest with
              | nil => rfl
              | cons x xs =>
                have := congrArg List.length h
                simp at this
            subst hrestnil
            simp only [List.nil_append, List.cons.injEq, Prod.mk.injEq, and_true] at h
            rw [← h.1]
            have hpermF : outIdx.Perm F := by
              rw [List.perm_ext_iff_of_nodup (hpermout.nodup_iff.mpr houtSetnd) hF]
              intro a
              rw [hmemout]
              constructor
              · rintro ⟨_, h2⟩
                rcases h2 with h2 | ⟨q, hq, _⟩
                · exact h2
                · simp at hq
              · intro ha
                obtain ⟨p, hp, hap⟩ := hsubnew a ha
                simp only [List.nil_append, List.mem_singleton] at hp
                subst hp
                exact ⟨((hmemout a).mp hap).1, Or.inl ha⟩
            apply eq_of_perm_of_strict key _ _ hpermF _ hmono
            rw [← hout]
            apply strict_of_sorted_nodup key _ _ ((perm_sortBy key outSet).nodup_iff.mpr houtSetnd) (sorted_sortBy key outSet)
            have hinj := injOn_of_keysDistinct key outSet hkd
            exact fun a ha b hb => hinj a ((perm_sortBy key outSet).mem_iff.mp ha) b ((perm_sortBy key outSet).mem_iff.mp hb)
      · simp [hkd] at h

end

end TfPwaV.Einsum
