import TfPwaV.Proofs.EinsumFull

/-! C05 (einsum): `size_map` of `remove_size1` recovers any consistent shape assignment (sizes with size-1
    broadcasting), so the invariant `Inv` needed by `einsum_correct` follows from the assignment. -/
namespace TfPwaV.Einsum

theorem lookup_map_upd (a : Idx) (b : Nat) (l : Idx) : ∀ (m : List (Idx × Nat)),
    (m.map (fun q => if q.1 = a then (q.1, b) else q)).lookup l
      = if l = a then (m.lookup l).map (fun _ => b) else m.lookup l
  | [] => by simp
  | (k, v) :: m => by
    have ih := lookup_map_upd a b l m
    by_cases hka : k = a
    · subst hka
      by_cases hlk : l = k
      · subst hlk; simp
      · have : (l == k) = false := by simpa using hlk
        simp only [List.map_cons, if_true, List.lookup_cons, this, ih, hlk, if_false]
    · by_cases hlk : l = k
      · subst hlk
        simp [hka]
      · have : (l == k) = false := by simpa using hlk
        simp only [List.map_cons, hka, if_false, List.lookup_cons, this, ih]

/-- the entry of a label after one update of `size_map` -/
theorem lookup_smStep (m : List (Idx × Nat)) (p : Idx × Nat) (l : Idx) :
    (smStep m p).lookup l = if l = p.1 then
        (match m.lookup l with
          | none => some (if p.2 ≥ 1 then p.2 else 1)
          | some v => some (if p.2 ≥ v then p.2 else v))
      else m.lookup l := by
  unfold smStep
  by_cases hl : l = p.1
  · rw [if_pos hl]
    cases hm : m.lookup l with
    | none =>
      have hm' : m.lookup p.1 = none := hl ▸ hm
      simp only [hm']
      rw [List.lookup_append, hm]
      simp [List.lookup_cons, hl]
    | some v =>
      have hm' : m.lookup p.1 = some v := hl ▸ hm
      simp only [hm']
      split_ifs with hge
      · rw [lookup_map_upd, if_pos hl, hm]; rfl
      · exact hm
  · rw [if_neg hl]
    cases hm : m.lookup p.1 with
    | none =>
      simp only
      rw [List.lookup_append]
      have : (l == p.1) = false := by simpa using hl
      simp [List.lookup_cons, this]
    | some v =>
      simp only
      split_ifs with hge
      · rw [lookup_map_upd, if_neg hl]
      · rfl

/-- folding the updates over pairs whose dimension is the assigned size or 1: the entry of `l` stays in
    {absent, 1, sz l} and is `sz l` as soon as one pair carries the full size -/
theorem foldl_smStep_assign (sz : Idx → Nat) (hsz : ∀ l, 1 ≤ sz l) (l : Idx) :
    ∀ (ps : List (Idx × Nat)) (m : List (Idx × Nat)), (∀ q ∈ ps, q.2 = sz q.1 ∨ q.2 = 1) →
    (m.lookup l = none ∨ m.lookup l = some 1 ∨ m.lookup l = some (sz l)) →
    ((ps.foldl smStep m).lookup l = none ∨ (ps.foldl smStep m).lookup l = some 1 ∨
        (ps.foldl smStep m).lookup l = some (sz l)) ∧
      ((m.lookup l = some (sz l) ∨ ∃ q ∈ ps, q.1 = l ∧ q.2 = sz l) → (ps.foldl smStep m).lookup l = some (sz l))
  | [], m, _, hm => ⟨hm, fun h => h.elim id (fun ⟨q, hq, _⟩ => by simp at hq)⟩
  | p :: ps, m, hps, hm => by
    have hp := hps p List.mem_cons_self
    have hszl := hsz l
    -- the entry after the first update
    have hstep : ((smStep m p).lookup l = none ∨ (smStep m p).lookup l = some 1 ∨ (smStep m p).lookup l = some (sz l)) ∧
        ((m.lookup l = some (sz l) ∨ (p.1 = l ∧ p.2 = sz l)) → (smStep m p).lookup l = some (sz l)) := by
      rw [lookup_smStep]
      by_cases hl : l = p.1
      · subst hl
        rw [if_pos rfl]
        rcases hm with hm | hm | hm <;> rw [hm] <;> simp only <;> rcases hp with hp | hp <;> rw [hp]
        · refine ⟨Or.inr (Or.inr ?_), fun _ => ?_⟩ <;> simp [hszl]
        · refine ⟨Or.inr (Or.inl ?_), fun h => ?_⟩
          · simp
          · rcases h with h | h
            · simp at h
            · simp [← h.2, hp]
        · refine ⟨Or.inr (Or.inr ?_), fun _ => ?_⟩ <;> simp [hszl]
        · refine ⟨Or.inr (Or.inl ?_), fun h => ?_⟩
          · simp
          · rcases h with h | h
            · simp only [Option.some.injEq] at h; simp [← h]
            · simp [← h.2, hp]
        · refine ⟨Or.inr (Or.inr ?_), fun _ => ?_⟩ <;> simp
        · have : (if 1 ≥ sz p.1 then 1 else sz p.1) = sz p.1 := by
            split_ifs with h1
            · omega
            · rfl
          refine ⟨Or.inr (Or.inr ?_), fun _ => ?_⟩ <;> simp only [this]
      · rw [if_neg hl]
        refine ⟨hm, fun h => ?_⟩
        rcases h with h | h
        · exact h
        · exact absurd h.1.symm hl
    have ih := foldl_smStep_assign sz hsz l ps (smStep m p) (fun q hq => hps q (List.mem_cons_of_mem _ hq)) hstep.1
    refine ⟨ih.1, fun h => ih.2 ?_⟩
    rcases h with h | ⟨q, hq, hq1, hq2⟩
    · exact Or.inl (hstep.2 (Or.inl h))
    · rcases List.mem_cons.mp hq with rfl | hq
      · exact Or.inl (hstep.2 (Or.inr ⟨hq1, hq2⟩))
      · exact Or.inr ⟨q, hq, hq1, hq2⟩

theorem mem_zip_map_self (d : Idx → Nat) : ∀ (L : List Idx) (q : Idx × Nat), q ∈ L.zip (L.map d) ↔ q.1 ∈ L ∧ q.2 = d q.1
  | [], q => by simp
  | a :: L, q => by
    simp only [List.map_cons, List.zip_cons_cons, List.mem_cons, mem_zip_map_self d L q]
    constructor
    · rintro (rfl | ⟨h1, h2⟩)
      · exact ⟨Or.inl rfl, rfl⟩
      · exact ⟨Or.inr h1, h2⟩
    · rintro ⟨h1 | h1, h2⟩
      · left; exact Prod.ext h1 (by rw [h2, h1])
      · exact Or.inr ⟨h1, h2⟩

section
variable {R : Type} [CommSemiring R]

omit [CommSemiring R] in
/-- **Every consistent shape assignment is recovered**: if `sz` assigns a positive size to every label such that every
    axis of every operand has the size of its label or size 1, and every label has its full size in some operand,
    then the routine's `size_map` equals `sz` on the labels of the expression and the invariant `Inv` holds. -/
theorem inv_of_assignment (sz : Idx → Nat) (ins1 : List (List Idx)) (ts : List (Tensor R)) (hsz : ∀ l, 1 ≤ sz l)
    (hnd : ∀ p ∈ ins1.zip ts, p.1.Nodup) (hlen : ∀ p ∈ ins1.zip ts, p.2.shape.length = p.1.length)
    (hdim : ∀ p ∈ ins1.zip ts, ∀ l ∈ p.1, dimOf p l = sz l ∨ dimOf p l = 1)
    (hcov : ∀ l, (∃ p ∈ ins1.zip ts, l ∈ p.1) → ∃ p ∈ ins1.zip ts, l ∈ p.1 ∧ dimOf p l = sz l) :
    (∀ l, (∃ p ∈ ins1.zip ts, l ∈ p.1) → sizesOf ins1 ts l = sz l) ∧ Inv (sizesOf ins1 ts) (ins1.zip ts) := by
  have hshape : ∀ p ∈ ins1.zip ts, p.2.shape = p.1.map (dimOf p) :=
    fun p hp => shape_eq_map_dimOf p.1 p.2 (hnd p hp) (hlen p hp)
  -- the pairs (label, dimension) seen by `size_map`
  have hpairs : ∀ q, q ∈ ((ins1.zip (ts.map (·.shape))).flatMap fun p => p.1.zip p.2) ↔
      ∃ p ∈ ins1.zip ts, q.1 ∈ p.1 ∧ q.2 = dimOf p q.1 := by
    intro q
    rw [List.zip_map_right, List.mem_flatMap]
    constructor
    · rintro ⟨p', hp', hq⟩
      obtain ⟨p, hp, rfl⟩ := List.mem_map.mp hp'
      simp only [Prod.map, id] at hq
      rw [hshape p hp, mem_zip_map_self] at hq
      exact ⟨p, hp, hq⟩
    · rintro ⟨p, hp, hq⟩
      refine ⟨Prod.map id (·.shape) p, List.mem_map.mpr ⟨p, hp, rfl⟩, ?_⟩
      simp only [Prod.map, id]
      rw [hshape p hp, mem_zip_map_self]
      exact hq
  have hsizes : ∀ l, (∃ p ∈ ins1.zip ts, l ∈ p.1) → sizesOf ins1 ts l = sz l := by
    intro l hl
    obtain ⟨p, hp, hlp, hfull⟩ := hcov l hl
    unfold sizesOf lookupD
    rw [sizeMap_eq]
    have := (foldl_smStep_assign sz hsz l _ [] (by
      intro q hq
      obtain ⟨p', hp', hq1, hq2⟩ := (hpairs q).mp hq
      rw [hq2]
      exact hdim p' hp' q.1 hq1) (Or.inl rfl)).2 (Or.inr ⟨(l, dimOf p l), (hpairs _).mpr ⟨p, hp, hlp, rfl⟩, rfl, hfull⟩)
    rw [this]
    rfl
  refine ⟨hsizes, hnd, ?_, ?_⟩
  · intro p hp
    refine ⟨hshape p hp, ?_⟩
    intro l hl
    rw [hsizes l ⟨p, hp, hl⟩]
    exact hdim p hp l hl
  · intro l hl
    obtain ⟨p, hp, hlp, hfull⟩ := hcov l hl
    exact ⟨p, hp, hlp, by rw [hsizes l hl]; exact hfull⟩

end

end TfPwaV.Einsum
