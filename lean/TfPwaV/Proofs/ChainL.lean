import TfPwaV.Model.ChainL
import Mathlib.Data.List.Perm.Basic
import Mathlib.Data.List.Nodup
/-!
Scalar-free lemmas about `Model/ChainL.lean` (C11, `Props/C11e.lean`): the dict-comprehension lookup, and
"`depth_first()` of ANY listing of the decays of a labelled tree walks that tree".
-/
namespace TfPwaV.ChainL

theorem lookupAux_none (p : Nat) : ∀ (l : List Dec) (j : Nat) (acc : Option (Nat × Dec)),
    (∀ d ∈ l, d.core ≠ p) → lookupAux p l j acc = acc
  | [], _, _, _ => rfl
  | e :: es, j, acc, h => by
    have he : e.core ≠ p := h e (List.mem_cons_self ..)
    simp only [lookupAux, if_neg he]
    exact lookupAux_none p es (j + 1) acc (fun d hd => h d (List.mem_cons_of_mem _ hd))

theorem lookupAux_mem (p : Nat) (d : Dec) (hp : d.core = p) : ∀ (l : List Dec) (j : Nat) (acc : Option (Nat × Dec)),
    (l.map (·.core)).Nodup → d ∈ l → lookupAux p l j acc = some (j + l.idxOf d, d)
  | [], _, _, _, h => by simp at h
  | e :: es, j, acc, hn, hm => by
    rw [List.map_cons, List.nodup_cons] at hn
    by_cases hed : e = d
    · subst hed
      have : ∀ d' ∈ es, d'.core ≠ p := by
        intro d' hd' hc
        exact hn.1 (List.mem_map.mpr ⟨d', hd', by rw [hc, hp]⟩)
      simp only [lookupAux, if_pos hp, List.idxOf_cons_self, Nat.add_zero]
      exact lookupAux_none p es (j + 1) _ this
    · have hm' : d ∈ es := by
        rcases List.mem_cons.mp hm with h | h
        · exact absurd h.symm hed
        · exact h
      have := lookupAux_mem p d hp es (j + 1) (if e.core = p then some (j, e) else acc) hn.2 hm'
      simp only [lookupAux]
      rw [this, List.idxOf_cons_ne _ hed]
      congr 2
      omega

theorem lookup_none (ch : List Dec) (p : Nat) (h : ∀ d ∈ ch, d.core ≠ p) : lookup ch p = none :=
  lookupAux_none p ch 0 none h

theorem lookup_mem (ch : List Dec) (d : Dec) (hn : (ch.map (·.core)).Nodup) (hm : d ∈ ch) :
    lookup ch d.core = some (ch.idxOf d, d) := by
  have := lookupAux_mem d.core d rfl ch 0 none hn hm
  simpa [lookup] using this

@[simp] theorem LTree.id_node (i : Nat) (a b : LTree) : (LTree.node i a b).id = i := rfl
@[simp] theorem LTree.id_leaf (i : Nat) : (LTree.leaf i).id = i := rfl

theorem LTree.id_tag (ch : List Dec) (t : LTree) : (t.tag ch).id = t.id := by cases t <;> rfl

theorem LTree.idxs_tag (ch : List Dec) : ∀ t : LTree, (t.tag ch).idxs = t.decs.map (ch.idxOf ·)
  | .leaf _ => rfl
  | .node i a b => by simp [LTree.tag, ITree.idxs, LTree.decs, LTree.idxs_tag ch a, LTree.idxs_tag ch b]

def LTree.ids : LTree → List Nat
  | .leaf i => [i]
  | .node i a b => i :: (a.ids ++ b.ids)

theorem LTree.ids_tag (ch : List Dec) : ∀ t : LTree, (t.tag ch).ids = t.ids
  | .leaf _ => rfl
  | .node i a b => by simp [LTree.tag, ITree.ids, LTree.ids, LTree.ids_tag ch a, LTree.ids_tag ch b]

theorem LTree.leafIds_tag (ch : List Dec) : ∀ t : LTree, (t.tag ch).leafIds = t.leafIds
  | .leaf _ => rfl
  | .node i a b => by simp [LTree.tag, ITree.leafIds, LTree.leafIds, LTree.leafIds_tag ch a, LTree.leafIds_tag ch b]

theorem LTree.cores_eq (t : LTree) : t.decs.map (·.core) = t.cores := by
  induction t with
  | leaf _ => rfl
  | node i a b iha ihb => simp [LTree.decs, LTree.cores, iha, ihb]

/-- **`depth_first()` walks the tree, whatever the listing**: if the listed decays have pairwise different mothers, contain
the decays of `t`, and no final particle of `t` is the mother of a listed decay, then the walk from the root of `t`
reproduces `t`, every decay tagged with its position in the listing. -/
theorem depthFirst_tag (ch : List Dec) (hn : (ch.map (·.core)).Nodup) : ∀ (t : LTree) (fuel : Nat), t.depth ≤ fuel →
    (∀ d ∈ t.decs, d ∈ ch) → (∀ i ∈ t.leafIds, ∀ d ∈ ch, d.core ≠ i) → depthFirst ch fuel t.id = t.tag ch
  | .leaf i, fuel, _, _, hl => by
    cases fuel with
    | zero => rfl
    | succ f =>
      have : lookup ch i = none := lookup_none ch i (hl i (by simp [LTree.leafIds]))
      simp only [depthFirst, LTree.id_leaf, this, LTree.tag]
  | .node i a b, fuel, hf, hd, hl => by
    cases fuel with
    | zero => simp [LTree.depth] at hf
    | succ f =>
      have hmem : (⟨i, a.id, b.id⟩ : Dec) ∈ ch := hd _ (by simp [LTree.decs])
      have hlk := lookup_mem ch ⟨i, a.id, b.id⟩ hn hmem
      simp only [LTree.depth, Nat.add_le_add_iff_right] at hf
      have ha := depthFirst_tag ch hn a f (by omega)
        (fun d h => hd d (by simp [LTree.decs, h])) (fun j h => hl j (by simp [LTree.leafIds, h]))
      have hb := depthFirst_tag ch hn b f (by omega)
        (fun d h => hd d (by simp [LTree.decs, h])) (fun j h => hl j (by simp [LTree.leafIds, h]))
      have hlk' : lookup ch i = some (ch.idxOf (⟨i, a.id, b.id⟩ : Dec), ⟨i, a.id, b.id⟩) := hlk
      simp only [depthFirst, LTree.id_node, hlk', LTree.tag, ha, hb]

theorem LTree.length_decs_ge_depth : ∀ t : LTree, t.depth ≤ t.decs.length
  | .leaf _ => Nat.le_refl _
  | .node i a b => by
    have := LTree.length_decs_ge_depth a
    have := LTree.length_decs_ge_depth b
    simp only [LTree.depth, LTree.decs, List.length_cons, List.length_append]
    omega

/-- For a labelled tree with pairwise different particle names and ANY permutation `ch` of its decays:
`depth_first()` from the root walks exactly that tree, and reaches every listed decay. -/
theorem depthFirstTop_perm (t : LTree) (hnames : (t.cores ++ t.leafIds).Nodup) (ch : List Dec) (hperm : ch.Perm t.decs) :
    depthFirstTop ch t.id = t.tag ch ∧ ∀ j, j < ch.length → j ∈ (t.tag ch).idxs := by
  have hcores : (ch.map (·.core)).Nodup := by
    have : (ch.map (·.core)).Perm t.cores := by rw [← LTree.cores_eq]; exact hperm.map _
    exact this.nodup_iff.mpr (List.Nodup.of_append_left hnames)
  have hdisj := List.disjoint_of_nodup_append hnames
  refine ⟨?_, ?_⟩
  · apply depthFirst_tag ch hcores t
    · have := LTree.length_decs_ge_depth t
      rw [hperm.length_eq]; omega
    · intro d hd; exact hperm.mem_iff.mpr hd
    · intro i hi d hd hc
      have : d.core ∈ t.cores := by
        rw [← LTree.cores_eq]; exact List.mem_map.mpr ⟨d, hperm.mem_iff.mp hd, rfl⟩
      exact hdisj this (hc ▸ hi)
  · intro j hj
    rw [LTree.idxs_tag]
    have hnd : ch.Nodup := List.Nodup.of_map _ hcores
    refine List.mem_map.mpr ⟨ch[j], hperm.mem_iff.mp (List.getElem_mem hj), ?_⟩
    exact hnd.idxOf_getElem j hj

end TfPwaV.ChainL
