import TfPwaV.Props.C11d
import TfPwaV.Gen.CascadeLR
import TfPwaV.Proofs.ChainL
import TfPwaV.Proofs.Phsp
import Mathlib.Algebra.BigOperators.Group.List.Basic
import Mathlib.Tactic.FieldSimp
import Mathlib.Tactic.Positivity
/-!
Helper lemmas for `Props/C11e.lean` (C11: the `DecayChain` bookkeeping of `HelicityAngle` around the cascade model):
reading the positional angle lists back, the loops of `get_mass_range`, `numpy.linspace`, and
`get_relative_p = get_p` (tie of `get_phsp_factor` to the weight model of C10).
-/
open TfPwaV.ScalarR
namespace TfPwaV.C11
open TfPwaV.KinR TfPwaV.CascadeR TfPwaV.CascadeLR TfPwaV.ChainL

/-! ### (1) listing order -/

theorem anglesOf_toD (mass : Nat → ℝ) (cs phis : List ℝ) : ∀ S : ITree,
    anglesOf S (toD mass cs phis S) = S.idxs.map (fun j => (j, cs.getD j 0, phis.getD j 0))
  | .leaf _ => by simp [anglesOf, ITree.idxs]
  | .node i j a b => by
    simp [anglesOf, toD, ITree.idxs, anglesOf_toD mass cs phis a, anglesOf_toD mass cs phis b]

theorem massesOf_toD (mass : Nat → ℝ) (cs phis : List ℝ) : ∀ S : ITree,
    massesOf S (toD mass cs phis S) = S.ids.map (fun i => (i, mass i))
  | .leaf _ => by simp [massesOf, toD, ITree.ids, ITree.id, DTree.mass]
  | .node i j a b => by
    simp [massesOf, toD, ITree.ids, massesOf_toD mass cs phis a, massesOf_toD mass cs phis b]

theorem lookup_map_self {β : Type} (f : Nat → β) : ∀ (l : List Nat) (j : Nat), j ∈ l →
    (l.map (fun k => (k, f k))).lookup j = some (f j)
  | [], _, h => by simp at h
  | k :: l, j, h => by
    by_cases hjk : j = k
    · subst hjk; simp
    · have hm : j ∈ l := by
        rcases List.mem_cons.mp h with h | h
        · exact absurd h hjk
        · exact h
      have hb : (j == k) = false := by simpa using hjk
      simp only [List.map_cons, List.lookup, hb]
      exact lookup_map_self f l j hm

theorem range_map_getD (cs : List ℝ) (n : Nat) (h : cs.length = n) : (List.range n).map (fun j => cs.getD j 0) = cs := by
  apply List.ext_getElem
  · simp [h]
  · intro i h1 h2
    simp [List.getD_eq_getElem?_getD, h2]

/-! ### (2) `get_mass_range` -/

/-- a loop `for d in l: if c(d): acc = some (f d)` whose `f` takes one value `v` on all matching `d` -/
theorem foldl_overwrite {β : Type} (c : Dec → Prop) [DecidablePred c] (f : Dec → β) (v : β) :
    ∀ (l : List Dec) (acc : Option β), (∀ d ∈ l, c d → f d = v) → (∃ d ∈ l, c d) →
      l.foldl (fun a d => if c d then some (f d) else a) acc = some v := by
  intro l
  induction l with
  | nil => intro _ _ h; obtain ⟨d, hd, _⟩ := h; simp at hd
  | cons e es ih =>
    intro acc hv hex
    simp only [List.foldl_cons]
    by_cases hes : ∃ d ∈ es, c d
    · exact ih _ (fun d hd => hv d (List.mem_cons_of_mem _ hd)) hes
    · have hce : c e := by
        obtain ⟨d, hd, hc⟩ := hex
        rcases List.mem_cons.mp hd with h | h
        · exact h ▸ hc
        · exact absurd ⟨d, h, hc⟩ hes
      have hnone : ∀ (a : Option β), es.foldl (fun a d => if c d then some (f d) else a) a = a := by
        have : ∀ d ∈ es, ¬ c d := fun d hd hc => hes ⟨d, hd, hc⟩
        clear ih hv hex
        induction es with
        | nil => intro a; rfl
        | cons x xs ihx =>
          intro a
          simp only [List.foldl_cons, if_neg (this x (List.mem_cons_self ..))]
          exact ihx (fun h => hes (by obtain ⟨d, hd, hc⟩ := h; exact ⟨d, List.mem_cons_of_mem _ hd, hc⟩))
            (fun d hd => this d (List.mem_cons_of_mem _ hd)) a
      rw [hnone, if_pos hce, hv e (List.mem_cons_self ..) hce]

/-! ### (3) `get_relative_p` = `get_p` of the phase-space generator -/

open TfPwaV.PhspR in
theorem relP_eq_getP (M a b : ℝ) (ha : 0 ≤ a) (hb : 0 ≤ b) (hM : |a - b| ≤ M) : relP M a b = getP M a b := by
  have hM0 : 0 ≤ M := le_trans (abs_nonneg _) hM
  obtain ⟨hM1, hM2⟩ := abs_le.mp hM
  by_cases h : M > a + b
  · have hp : 0 ≤ p2Of M a b := p2Of_nonneg ha hb h.le
    rw [getP, clamp0_of_nonneg hp]
    simp only [relP, if_pos h, p2Of]
    congr 2
    ring
  · have hle : M ≤ a + b := not_lt.mp h
    have hp : p2Of M a b ≤ 0 := by
      unfold p2Of
      apply mul_nonpos_of_nonpos_of_nonneg
      · nlinarith
      · nlinarith
    simp only [relP, getP, if_neg h, clamp0, if_pos hp, sub_self, zero_mul, ksqrt, Real.sqrt_zero, zero_div]

/-! ### (2) hypotheses and statements about `get_mass_range` (list level: any chain in any listing order) -/

/-- `p` is a daughter of the decay -/
def IsOut (d : Dec) (p : Nat) : Prop := d.o1 = p ∨ d.o2 = p

instance (d : Dec) (p : Nat) : Decidable (IsOut d p) := by unfold IsOut; infer_instance

/-- what a listing of a decay TREE satisfies, in any order: every particle decays at most once, is produced at most once,
and the two daughters of a decay are different particles -/
structure TreeLike (ch : List Dec) : Prop where
  core_unique : ∀ d ∈ ch, ∀ d' ∈ ch, d.core = d'.core → d = d'
  out_unique : ∀ d ∈ ch, ∀ d' ∈ ch, ∀ p, IsOut d p → IsOut d' p → d = d'
  outs_ne : ∀ d ∈ ch, d.o1 ≠ d.o2

/-- kinematically allowed: every decay at or above threshold -/
def Allowed (ch : List Dec) (mass : Nat → ℝ) : Prop := ∀ d ∈ ch, mass d.o1 + mass d.o2 ≤ mass d.core

/-- an intermediate particle: it decays and it is produced -/
def Inner (ch : List Dec) (p : Nat) : Prop := (∃ d ∈ ch, d.core = p) ∧ (∃ d ∈ ch, IsOut d p)

/-- every intermediate mass lies in the range `get_mass_range` computes from the OTHER masses -/
def InRanges (ch : List Dec) (mass : Nat → ℝ) : Prop :=
  ∀ p, Inner ch p → ∃ lo hi, massRange ch mass p = (some lo, some hi) ∧ lo ≤ mass p ∧ mass p ≤ hi

theorem massRange_lo (ch : List Dec) (mass : Nat → ℝ) (h : TreeLike ch) (d : Dec) (hd : d ∈ ch) :
    (massRange ch mass d.core).1 = some (0 + mass d.o1 + mass d.o2) := by
  refine foldl_overwrite (fun d' => d'.core = d.core) (fun d' => 0 + mass d'.o1 + mass d'.o2) _ ch none ?_ ⟨d, hd, rfl⟩
  intro d' hd' hc
  rw [h.core_unique d' hd' d hd hc]

theorem massRange_hi (ch : List Dec) (mass : Nat → ℝ) (h : TreeLike ch) (d : Dec) (hd : d ∈ ch) (p : Nat) (hp : IsOut d p) :
    (massRange ch mass p).2 = some (mass d.core - sibSum mass p d) := by
  refine foldl_overwrite (fun d' => d'.o1 = p ∨ d'.o2 = p) (fun d' => mass d'.core - sibSum mass p d') _ ch none ?_ ⟨d, hd, hp⟩
  intro d' hd' hc
  rw [h.out_unique d' hd' d hd p hc hp]

theorem sibSum_o1 (mass : Nat → ℝ) (d : Dec) (hne : d.o1 ≠ d.o2) : sibSum mass d.o1 d = 0 + mass d.o2 := by
  simp only [sibSum, if_true, if_neg (Ne.symm hne)]

theorem sibSum_o2 (mass : Nat → ℝ) (d : Dec) (hne : d.o1 ≠ d.o2) : sibSum mass d.o2 d = 0 + mass d.o1 := by
  simp only [sibSum, if_true, if_neg hne]

/-! ### `numpy.linspace` -/

theorem linspace_length (a b : ℝ) (N : Nat) : (linspace a b N).length = N := by
  unfold linspace
  split
  · next h => simp [h]
  · simp

theorem linspace_bounds (a b : ℝ) (N : Nat) (hab : a ≤ b) : ∀ x ∈ linspace a b N, a ≤ x ∧ x ≤ b := by
  intro x hx
  unfold linspace at hx
  split at hx
  · simp only [List.mem_singleton] at hx; subst hx; exact ⟨le_refl _, hab⟩
  · next hN =>
    obtain ⟨i, hi, rfl⟩ := List.mem_map.mp hx
    have hiN : i < N := List.mem_range.mp hi
    split
    · exact ⟨hab, le_refl _⟩
    · next hne =>
      have h1 : i < N - 1 := by omega
      have hc : (i : ℝ) ≤ ((N - 1 : ℕ) : ℝ) := by exact_mod_cast h1.le
      have hpos : (0 : ℝ) < ((N - 1 : ℕ) : ℝ) := by exact_mod_cast (by omega : 0 < N - 1)
      have hi0 : (0 : ℝ) ≤ (i : ℝ) := Nat.cast_nonneg i
      have ht : 0 ≤ (b - a) / ((N - 1 : ℕ) : ℝ) := div_nonneg (by linarith) hpos.le
      have hmul : ((N - 1 : ℕ) : ℝ) * ((b - a) / ((N - 1 : ℕ) : ℝ)) = b - a := by field_simp
      unfold kofNat
      constructor
      · nlinarith [mul_nonneg hi0 ht]
      · nlinarith [mul_le_mul_of_nonneg_right hc ht]

/-! ### (3) the sequential chain of the phase-space generator -/

/-- every triple `(mother, system, bachelor)`: masses `≥ 0` and the mother not below `|system − bachelor|`
(in particular: every decay at or above threshold) -/
def SeqOK (l : List (ℝ × ℝ × ℝ)) : Prop := ∀ t ∈ l, 0 ≤ t.2.1 ∧ 0 ≤ t.2.2 ∧ |t.2.1 - t.2.2| ≤ t.1

theorem seq_relP_eq_qList (m0 : ℝ) : ∀ (ms rs : List ℝ) (mp : ℝ) (py : Bool), SeqOK (seqTriples mp ms rs m0) →
    (seqTriples mp ms rs m0).map (fun t => relP t.1 t.2.1 t.2.2) = TfPwaV.PhspR.qListAux id m0 mp py ms rs
  | [], [], _, _, _ => by simp [seqTriples, TfPwaV.PhspR.qListAux]
  | [], r :: rs, mp, py, h => by
    obtain ⟨h1, h2, h3⟩ := h (m0, mp, r) (by simp [seqTriples])
    simp only [seqTriples, TfPwaV.PhspR.qListAux, List.map_cons, List.map_nil, relP_eq_getP m0 mp r h1 h2 h3,
      TfPwaV.PhspR.getPpy_id, TfPwaV.PhspR.getPm_id, ite_self]
  | m :: ms, [], _, _, _ => by simp [seqTriples, TfPwaV.PhspR.qListAux]
  | m :: ms, r :: rs, mp, py, h => by
    obtain ⟨h1, h2, h3⟩ := h (m, mp, r) (by simp [seqTriples])
    have ih := seq_relP_eq_qList m0 ms rs m false (fun t ht => h t (by simp [seqTriples, ht]))
    simp only [seqTriples, TfPwaV.PhspR.qListAux, List.map_cons, relP_eq_getP m mp r h1 h2 h3, ih]

theorem evalPhspFactor_eq_prod (ch : List Dec) (mass : Nat → ℝ) : evalPhspFactor ch mass = (ch.map (relP3 mass)).prod := by
  unfold evalPhspFactor; rw [List.prod_eq_foldl]

end TfPwaV.C11
