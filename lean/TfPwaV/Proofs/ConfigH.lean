import TfPwaV.Model.ConfigE
import TfPwaV.Proofs.ConfigGT
/-! Helper lemmas for C19h (core Lean only): the string rendering of variable names, `Variable` overwrite, the
`coef_head` fold of part E. -/
namespace TfPwaV.ConfigE
open TfPwaV.Config TfPwaV.ConfigD

/-! ### character lists -/

/-- a list is cut at the LAST occurrence of `c` in one way only -/
theorem split_last (c : Char) (A B D1 D2 : List Char) (h1 : c ∉ D1) (h2 : c ∉ D2)
    (h : A ++ c :: D1 = B ++ c :: D2) : A = B ∧ D1 = D2 := by
  induction A generalizing B with
  | nil =>
    cases B with
    | nil => simp at h; exact ⟨rfl, h⟩
    | cons b B' =>
      simp at h
      exfalso; apply h1; rw [h.2]; simp
  | cons a A' ih =>
    cases B with
    | nil =>
      simp at h
      exfalso; apply h2; rw [← h.2]; simp
    | cons b B' =>
      simp at h
      obtain ⟨hab, ht⟩ := h
      obtain ⟨e1, e2⟩ := ih B' ht
      exact ⟨by rw [hab, e1], e2⟩

/-- … and at the FIRST occurrence -/
theorem split_first (c : Char) (A B X Y : List Char) (h1 : c ∉ A) (h2 : c ∉ B)
    (h : A ++ c :: X = B ++ c :: Y) : A = B ∧ X = Y := by
  induction A generalizing B with
  | nil =>
    cases B with
    | nil => simp at h; exact ⟨rfl, h⟩
    | cons b B' =>
      simp at h
      exfalso; apply h2; rw [← h.1]; simp
  | cons a A' ih =>
    cases B with
    | nil =>
      simp at h
      exfalso; apply h1; rw [h.1]; simp
    | cons b B' =>
      simp at h
      obtain ⟨hab, ht⟩ := h
      have h1' : c ∉ A' := fun hm => h1 (List.mem_cons_of_mem _ hm)
      have h2' : c ∉ B' := fun hm => h2 (List.mem_cons_of_mem _ hm)
      obtain ⟨e1, e2⟩ := ih B' h1' h2' ht
      exact ⟨by rw [hab, e1], e2⟩

theorem toDigits_inj {a b : Nat} (h : Nat.toDigits 10 a = Nat.toDigits 10 b) : a = b := by
  have ha := @Nat.ofDigitChars_ten_toDigits a
  have hb := @Nat.ofDigitChars_ten_toDigits b
  rw [h] at ha
  rw [← ha, hb]

theorem toList_natToString (k : Nat) : (toString k).toList = Nat.toDigits 10 k := Nat.toList_repr

/-- `base ++ "_" ++ toString i` as characters -/
theorem toList_indexed (b : String) (i : Nat) :
    (b ++ "_" ++ toString i).toList = b.toList ++ '_' :: Nat.toDigits 10 i := by
  rw [String.toList_append, String.toList_append, toList_natToString]
  simp

/-- the indexed name determines base and index -/
theorem indexed_inj {b1 b2 : String} {i1 i2 : Nat} (h : b1 ++ "_" ++ toString i1 = b2 ++ "_" ++ toString i2) :
    b1 = b2 ∧ i1 = i2 := by
  have hl := congrArg String.toList h
  rw [toList_indexed, toList_indexed] at hl
  obtain ⟨e1, e2⟩ := split_last '_' _ _ _ _ Nat.underscore_not_in_toDigits Nat.underscore_not_in_toDigits hl
  exact ⟨String.toList_inj.1 e1, toDigits_inj e2⟩

theorem append_single_inj {s1 s2 : String} {c1 c2 : Char} (h : s1 ++ String.singleton c1 = s2 ++ String.singleton c2) :
    s1 = s2 ∧ c1 = c2 := by
  have hl := congrArg String.toList h
  rw [String.toList_append, String.toList_append] at hl
  have h1 : (String.singleton c1).toList = [c1] := by simp
  have h2 : (String.singleton c2).toList = [c2] := by simp
  rw [h1, h2] at hl
  have := List.append_inj' hl rfl
  exact ⟨String.toList_inj.1 this.1, by simpa using this.2⟩

/-- a name that ends with the decimal digits of an index does not end with a letter part -/
theorem indexed_last_isDigit (b : String) (i : Nat) :
    ∃ c, (b ++ "_" ++ toString i).toList.getLast? = some c ∧ c.isDigit = true := by
  rw [toList_indexed]
  have hne : Nat.toDigits 10 i ≠ [] := Nat.toDigits_ne_nil
  obtain ⟨c, hc⟩ : ∃ c, (Nat.toDigits 10 i).getLast? = some c := by
    cases hl : (Nat.toDigits 10 i).getLast? with
    | none => exact absurd (List.getLast?_eq_none_iff.1 hl) hne
    | some c => exact ⟨c, rfl⟩
  refine ⟨c, ?_, ?_⟩
  · have : (b.toList ++ '_' :: Nat.toDigits 10 i) = (b.toList ++ ['_']) ++ Nat.toDigits 10 i := by simp
    rw [this, List.getLast?_append, hc]; rfl
  · exact Nat.isDigit_of_mem_toDigits (by decide) (by decide) (List.mem_of_getLast? hc)


/-! ### dicts with unique keys -/

theorem lastKV_cons {β : Type} (x : String × β) (xs : List (String × β)) (k : String) :
    lastKV (x :: xs) k = (lastKV xs k).orElse fun _ => if x.1 = k then some x.2 else none := by
  unfold lastKV
  simp only [List.foldl_cons]
  exact foldl_last xs k _

theorem lastKV_none_of_not_mem {β : Type} (b : List (String × β)) (k : String) (h : k ∉ b.map (·.1)) : lastKV b k = none := by
  induction b with
  | nil => rfl
  | cons x xs ih =>
    rw [lastKV_cons]
    simp only [List.map_cons, List.mem_cons, not_or] at h
    rw [ih h.2]
    have : ¬ x.1 = k := fun e => h.1 e.symm
    simp [this]

theorem lastKV_eq_getKV {β : Type} (b : List (String × β)) (k : String) (h : (b.map (·.1)).Nodup) : lastKV b k = getKV b k := by
  induction b with
  | nil => rfl
  | cons x xs ih =>
    rw [lastKV_cons]
    simp only [List.map_cons, List.nodup_cons] at h
    simp only [getKV]
    by_cases hx : x.1 = k
    · rw [if_pos hx, if_pos hx, lastKV_none_of_not_mem xs k (by rw [← hx]; exact h.1)]; rfl
    · rw [if_neg hx, if_neg hx, ih h.2]
      cases getKV xs k <;> rfl

theorem setKV_keys {β : Type} (a : List (String × β)) (k : String) (v : β) :
    (setKV a k v).map (·.1) = if k ∈ a.map (·.1) then a.map (·.1) else a.map (·.1) ++ [k] := by
  induction a with
  | nil => simp [setKV]
  | cons y ys ih =>
    simp only [setKV]
    by_cases hy : y.1 = k
    · simp [hy]
    · rw [if_neg hy]
      simp only [List.map_cons, List.mem_cons, ih]
      have : ¬ k = y.1 := fun e => hy e.symm
      by_cases hm : k ∈ ys.map (·.1)
      · simp [hm]
      · simp [hm, this]

theorem setKV_nodup {β : Type} (a : List (String × β)) (k : String) (v : β) (h : (a.map (·.1)).Nodup) :
    ((setKV a k v).map (·.1)).Nodup := by
  rw [setKV_keys]
  by_cases hm : k ∈ a.map (·.1)
  · rw [if_pos hm]; exact h
  · rw [if_neg hm, List.nodup_append]
    exact ⟨h, by simp, fun x hx y hy => by simp at hy; subst hy; exact fun e => hm (e ▸ hx)⟩

theorem updKV_nodup {β : Type} (a b : List (String × β)) (h : (a.map (·.1)).Nodup) : ((updKV a b).map (·.1)).Nodup := by
  unfold updKV
  induction b generalizing a with
  | nil => exact h
  | cons x xs ih => exact ih _ (setKV_nodup a x.1 x.2 h)

/-! ### `Variable` overwrite -/

theorem addVar_bases (st : List Var) (v : Var) (h : (st.map (·.base)).Nodup) : ((addVar st v).map (·.base)).Nodup := by
  unfold addVar
  rw [List.map_append, List.nodup_append]
  refine ⟨?_, by simp, ?_⟩
  · exact (List.Nodup.sublist (List.Sublist.map _ List.filter_sublist) h)
  · intro a ha b hb
    simp only [List.map_cons, List.map_nil, List.mem_singleton] at hb
    subst hb
    obtain ⟨w, hw, rfl⟩ := List.mem_map.1 ha
    have := (List.mem_filter.1 hw).2
    simpa using this

theorem addVar_mem (st : List Var) (v w : Var) (h : w ∈ addVar st v) : w ∈ st ∨ w = v := by
  unfold addVar at h
  rcases List.mem_append.1 h with h | h
  · exact Or.inl (List.mem_filter.1 h).1
  · exact Or.inr (by simpa using h)

theorem foldl_addVar_inv (vs st : List Var) (h : (st.map (·.base)).Nodup) :
    ((vs.foldl addVar st).map (·.base)).Nodup ∧ ∀ w ∈ vs.foldl addVar st, w ∈ st ∨ w ∈ vs := by
  induction vs generalizing st with
  | nil => exact ⟨h, fun w hw => Or.inl hw⟩
  | cons v r ih =>
    simp only [List.foldl_cons]
    obtain ⟨h1, h2⟩ := ih (addVar st v) (addVar_bases st v h)
    refine ⟨h1, fun w hw => ?_⟩
    rcases h2 w hw with h3 | h3
    · rcases addVar_mem st v w h3 with h4 | h4
      · exact Or.inl h4
      · exact Or.inr (by rw [h4]; exact List.mem_cons_self ..)
    · exact Or.inr (List.mem_cons_of_mem _ h3)

/-! ### the `coef_head` fold -/

/-- what one position-matched pair of decays contributes -/
def pairTies (x : CtxD) (i : Name) (jh : BDecay × BDecay) : List (String × String) :=
  if i == jh.1.o1 || i == jh.1.o2 || i == jh.1.core then
    (List.range (x.ls jh.1).length).map fun k =>
      (x.headOf jh.2 ++ "_g_ls_" ++ toString k, x.headOf jh.1 ++ "_g_ls_" ++ toString k)
  else []

theorem glsFold_spec (x : CtxD) (i : Name) (l : List (BDecay × BDecay)) (acc t : List (String × String))
    (h : l.foldlM (glsTiesE x i) acc = .ok t) : t = acc ++ l.flatMap (pairTies x i) := by
  induction l generalizing acc with
  | nil =>
    simp only [List.foldlM_nil, pure, Except.pure, Except.ok.injEq] at h
    simp [← h]
  | cons jh r ih =>
    simp only [List.foldlM_cons, bind, Except.bind] at h
    cases hs : glsTiesE x i acc jh with
    | error e => rw [hs] at h; simp at h
    | ok acc' =>
      rw [hs] at h
      have := ih acc' h
      rw [this, List.flatMap_cons, ← List.append_assoc]
      congr 1
      unfold pairTies
      simp only [glsTiesE] at hs
      by_cases hinv : (i == jh.1.o1 || i == jh.1.o2 || i == jh.1.core) = true
      · rw [if_pos hinv] at hs
        rw [if_pos hinv]
        by_cases hlen : ((x.ls jh.2).length != (x.ls jh.1).length) = true
        · rw [if_pos hlen] at hs; simp at hs
        · rw [if_neg hlen] at hs
          by_cases hre : (glsReal (x.kwOf jh.2) != glsReal (x.kwOf jh.1)) = true
          · rw [if_pos hre] at hs; simp at hs
          · rw [if_neg hre] at hs
            simp only [Except.ok.injEq] at hs
            exact hs.symm
      · rw [if_neg hinv] at hs
        rw [if_neg hinv]
        simp only [Except.ok.injEq] at hs
        rw [← hs]; simp

/-- the ties one visit of particle `i` in `chain` declares, given the state left by the earlier visits -/
def visitTies (x : CtxD) (chain : Chain) (st : CoefStE) (i : Name) : List (String × String) :=
  match getKV x.props i with
  | none => []
  | some pc =>
    match headInForce st i pc with
    | none => []
    | some h =>
      match getKV (setKV st.resDec i chain) h with
      | none => []
      | some dh => (chain.zip dh).flatMap (pairTies x i) ++ [(x.chainHead dh ++ "_total_0r", x.chainHead chain ++ "_total_0r")]

theorem coefStepE_ties (x : CtxD) (chain : Chain) (st st' : CoefStE) (i : Name) (h : coefStepE x chain st i = .ok st') :
    st'.ties = st.ties ++ visitTies x chain st i := by
  unfold coefStepE at h
  unfold visitTies
  cases hp : getKV x.props i with
  | none => rw [hp] at h; simp at h
  | some pc =>
    rw [hp] at h
    simp only at h ⊢
    cases hh : headInForce st i pc with
    | none => rw [hh] at h; simp only [Except.ok.injEq] at h; rw [← h]; simp
    | some hd =>
      rw [hh] at h
      simp only at h ⊢
      cases hr : getKV (setKV st.resDec i chain) hd with
      | none => rw [hr] at h; simp only [Except.ok.injEq] at h; rw [← h]; simp
      | some dh =>
        rw [hr] at h
        simp only [bind, Except.bind] at h ⊢
        cases hf : (chain.zip dh).foldlM (glsTiesE x i) st.ties with
        | error e => rw [hf] at h; simp at h
        | ok t =>
          rw [hf] at h
          simp only [Except.ok.injEq] at h
          rw [← h, glsFold_spec x i _ _ _ hf, List.append_assoc]

theorem coefRun_nil (x : CtxD) (st : CoefStE) : coefRun x [] st = .ok st := rfl

theorem coefRun_cons (x : CtxD) (a : Chain × Name) (r : List (Chain × Name)) (st : CoefStE) :
    coefRun x (a :: r) st = (coefStepE x a.1 st a.2).bind fun st' => coefRun x r st' := by
  unfold coefRun
  simp only [List.foldlM_cons, bind]

theorem coefRun_append (x : CtxD) (p q : List (Chain × Name)) (st : CoefStE) :
    coefRun x (p ++ q) st = (coefRun x p st).bind fun st' => coefRun x q st' := by
  unfold coefRun
  rw [List.foldlM_append]; rfl

end TfPwaV.ConfigE
