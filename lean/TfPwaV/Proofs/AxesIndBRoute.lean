import TfPwaV.Proofs.AxesIndB
import TfPwaV.Props.C02d
/-!
Helper lemmas for `Props/C01i.lean`, part 2: the route matrices `b_matrix[f]·r_matrix[f]` under a change of the base axes.

* `rotZ_of_cos_sin`: two angles with equal cosine and sine give `Rotation_z` elements that are equal or differ by the
  central element `Rotation_z(2π) = −1` (the two sheets of the double cover).
* `routeM_cons`: `routeM (s :: ss) = routeM ss · stepM s`.
* `route_direct_change`, `route_deeper_change`: if the first step composes with `U` (`r'·U = Rotation_z(γ)·r`) and the
  azimuth of the second step is lowered by `γ` (mod `2π`), everything else being equal, then the route matrix of a direct
  daughter satisfies `M'·U = Rotation_z(γ)·M` and the route matrix of every deeper particle `M'·U = ±M`.
-/
open TfPwaV.ScalarR
namespace TfPwaV.AxesInd
open TfPwaV.SU2R TfPwaV.AlignR TfPwaV.KinR TfPwaV.AngleR TfPwaV.SL2CR TfPwaV.LorentzSLR TfPwaV.CascadeR TfPwaV.RouteRestR
open TfPwaV.C12 TfPwaV.C02 TfPwaV.C01 TfPwaV.C11

theorem rotZ_add (a b : ℝ) : rotZ (a + b) = (rotZ a).mul (rotZ b) := by
  have e : (a + b) / 2 = a / 2 + b / 2 := by ring
  simp only [rotZ_eq, e, Real.cos_add, Real.sin_add]
  ext <;> simp [M2.mul, Cx.mul, Cx.add, Cx.zero] <;> ring

/-- the central element `−1` of SU(2) -/
def negOne : M2 := ⟨⟨-1, 0⟩, Cx.zero, Cx.zero, ⟨-1, 0⟩⟩

theorem rotZ_two_pi : rotZ (2 * Real.pi) = negOne := by
  rw [rotZ_eq]
  have e : 2 * Real.pi / 2 = Real.pi := by ring
  rw [e, Real.cos_pi, Real.sin_pi]
  ext <;> simp [negOne]

theorem negOne_comm (x : M2) : negOne.mul x = x.mul negOne := by
  ext <;> simp [negOne, M2.mul, Cx.mul, Cx.add, Cx.zero]

theorem negOne_mul_negOne : negOne.mul negOne = M2.one := by
  ext <;> simp [negOne, M2.mul, M2.one, Cx.mul, Cx.add, Cx.zero, Cx.one]

theorem isSU2_negOne : IsSU2 negOne := by
  refine ⟨by simp [negOne, Cx.conj], by ext <;> simp [negOne, Cx.conj, Cx.neg, Cx.zero], ?_⟩
  simp [negOne, Cx.normSq, Cx.zero]

/-- **the two sheets**: equal cosine and sine ⇒ the `Rotation_z` elements are equal or differ by `−1` -/
theorem rotZ_of_cos_sin (a b : ℝ) (hc : Real.cos a = Real.cos b) (hs : Real.sin a = Real.sin b) :
    rotZ a = rotZ b ∨ rotZ a = negOne.mul (rotZ b) := by
  have ea : a = 2 * (a / 2) := by ring
  have eb : b = 2 * (b / 2) := by ring
  have sa := Real.sin_sq_add_cos_sq (a / 2)
  have sb := Real.sin_sq_add_cos_sq (b / 2)
  rw [ea, eb, Real.cos_two_mul, Real.cos_two_mul] at hc
  rw [ea, eb, Real.sin_two_mul, Real.sin_two_mul] at hs
  set c := Real.cos (a / 2)
  set s := Real.sin (a / 2)
  set c' := Real.cos (b / 2)
  set s' := Real.sin (b / 2)
  have hsq : (⟨c, s⟩ : ℂ) * ⟨c, s⟩ = (⟨c', s'⟩ : ℂ) * ⟨c', s'⟩ := by
    apply Complex.ext
    · simp only [Complex.mul_re]; nlinarith
    · simp only [Complex.mul_im]; nlinarith
  rcases mul_self_eq_mul_self_iff.mp hsq with h | h
  · left
    have h1 := congrArg Complex.re h
    have h2 := congrArg Complex.im h
    simp only at h1 h2
    rw [rotZ_eq, rotZ_eq]
    ext <;> simp [h1, h2, c, s, c', s'] <;> first | exact h1 | exact h2 | (rw [h2]) | skip
  · right
    have h1 := congrArg Complex.re h
    have h2 := congrArg Complex.im h
    simp only [Complex.neg_re, Complex.neg_im] at h1 h2
    rw [rotZ_eq, rotZ_eq]
    ext <;> simp [negOne, M2.mul, Cx.mul, Cx.add, Cx.zero] <;> first | exact h1 | exact h2 | linarith

theorem foldl_route (ss : List Step) (a : M2) :
    ss.foldl (fun acc s => (stepM s).mul acc) a = (routeM ss).mul a := by
  induction ss generalizing a with
  | nil => simp [routeM, M2.one_mul]
  | cons s ss ih =>
    unfold routeM
    simp only [List.foldl_cons]
    rw [ih, ih (a := (stepM s).mul M2.one), M2.mul_one, su2_mul_assoc]

/-- a later vertex multiplies on the left -/
theorem routeM_cons (s : Step) (ss : List Step) : routeM (s :: ss) = (routeM ss).mul (stepM s) := by
  unfold routeM
  simp only [List.foldl_cons]
  rw [M2.mul_one]
  exact foldl_route ss (stepM s)

theorem routeM_nil : routeM [] = M2.one := rfl

/-- the first step composes with `U` -/
theorem stepM_compose (s s' : Step) (U : M2) (γ : ℝ) (hω : s'.omega = s.omega)
    (h : (stepR s'.alpha s'.beta).mul U = (rotZ γ).mul (stepR s.alpha s.beta)) :
    (stepM s').mul U = (rotZ γ).mul (stepM s) := by
  unfold stepM
  rw [su2_mul_assoc, h, hω, ← su2_mul_assoc, boostZ_rotZ_comm, su2_mul_assoc]

/-- **direct daughter of the top particle**: `M'·U = Rotation_z(γ)·M` -/
theorem route_direct_change (s s' : Step) (U : M2) (γ : ℝ) (hω : s'.omega = s.omega)
    (h : (stepR s'.alpha s'.beta).mul U = (rotZ γ).mul (stepR s.alpha s.beta)) :
    (routeM [s']).mul U = (rotZ γ).mul (routeM [s]) := by
  rw [routeM_cons, routeM_cons, routeM_nil, M2.one_mul, M2.one_mul]
  exact stepM_compose s s' U γ hω h

/-- the second step absorbs `Rotation_z(γ)` up to the sheet -/
theorem stepM_absorb (t t' : Step) (γ : ℝ) (hβ : t'.beta = t.beta) (hω : t'.omega = t.omega)
    (hc : Real.cos t'.alpha = Real.cos (t.alpha - γ)) (hs : Real.sin t'.alpha = Real.sin (t.alpha - γ)) :
    (stepM t').mul (rotZ γ) = stepM t ∨ (stepM t').mul (rotZ γ) = negOne.mul (stepM t) := by
  have hz : rotZ (t'.alpha + γ) = rotZ t.alpha ∨ rotZ (t'.alpha + γ) = negOne.mul (rotZ t.alpha) := by
    apply rotZ_of_cos_sin
    · rw [Real.cos_add, hc, hs, ← Real.cos_add]; congr 1; ring
    · rw [Real.sin_add, hc, hs, ← Real.sin_add]; congr 1; ring
  have e : (stepM t').mul (rotZ γ) = ((boostZ t.omega).mul (rotY t.beta)).mul (rotZ (t'.alpha + γ)) := by
    unfold stepM stepR
    rw [hβ, hω, rotZ_add]
    simp only [su2_mul_assoc]
  have e0 : stepM t = ((boostZ t.omega).mul (rotY t.beta)).mul (rotZ t.alpha) := by
    unfold stepM stepR
    simp only [su2_mul_assoc]
  rcases hz with hz | hz
  · left; rw [e, hz, e0]
  · right
    rw [e, hz, e0, ← su2_mul_assoc, ← negOne_comm, su2_mul_assoc]

/-- **every deeper particle**: `M'·U = M` or `M'·U = −M` -/
theorem route_deeper_change (s s' t t' : Step) (rest : List Step) (U : M2) (γ : ℝ) (hω : s'.omega = s.omega)
    (h : (stepR s'.alpha s'.beta).mul U = (rotZ γ).mul (stepR s.alpha s.beta))
    (hβ : t'.beta = t.beta) (hω2 : t'.omega = t.omega)
    (hc : Real.cos t'.alpha = Real.cos (t.alpha - γ)) (hs : Real.sin t'.alpha = Real.sin (t.alpha - γ)) :
    (routeM (s' :: t' :: rest)).mul U = routeM (s :: t :: rest) ∨
      (routeM (s' :: t' :: rest)).mul U = negOne.mul (routeM (s :: t :: rest)) := by
  have e : (routeM (s' :: t' :: rest)).mul U = ((routeM rest).mul ((stepM t').mul (rotZ γ))).mul (stepM s) := by
    rw [routeM_cons, routeM_cons, su2_mul_assoc, stepM_compose s s' U γ hω h]
    simp only [su2_mul_assoc]
  have e0 : routeM (s :: t :: rest) = ((routeM rest).mul (stepM t)).mul (stepM s) := by
    rw [routeM_cons, routeM_cons]
  rcases stepM_absorb t t' γ hβ hω2 hc hs with h1 | h1
  · left; rw [e, h1, e0]
  · right
    rw [e, h1, e0, ← su2_mul_assoc (routeM rest), ← negOne_comm, su2_mul_assoc, su2_mul_assoc, su2_mul_assoc]

end TfPwaV.AxesInd
