import TfPwaV.Proofs.AxesIndBRoute
import TfPwaV.Props.C01h
/-!
Helper lemmas for `Props/C01i.lean`, part 3: the step record `stepTree` of `cal_helicity_angle` (`templates/RouteRest.lean.in`:
the `(alpha, beta, omega)` fed into `r_matrix` / `b_matrix`) under a change of the base axes.

* `StShift γ`: two step trees that differ only by a lowering `γ` (mod `2π`) of the two azimuths of their root vertex.
* `below_top_steps_shift`: the `stepTree` analogue of `C01h.below_top_azimuth_shift`.
* `StShift.steps`: along every decay path the two step lists are empty, or differ in the azimuth of the first step only.
-/
open TfPwaV.ScalarR
namespace TfPwaV.AxesInd
open TfPwaV.SU2R TfPwaV.AlignR TfPwaV.KinR TfPwaV.AngleR TfPwaV.SL2CR TfPwaV.LorentzSLR TfPwaV.CascadeR TfPwaV.RouteRestR
open TfPwaV.C12 TfPwaV.C02 TfPwaV.C01 TfPwaV.C11 TfPwaV.C01h

/-- the azimuth of `t'` is the azimuth of `t` lowered by `γ` (mod `2π`); polar angle and rapidity equal -/
def StepShift (γ : ℝ) (t t' : Step) : Prop :=
  t'.beta = t.beta ∧ t'.omega = t.omega ∧ Real.cos t'.alpha = Real.cos (t.alpha - γ) ∧
    Real.sin t'.alpha = Real.sin (t.alpha - γ)

/-- two step trees that differ only by a common lowering `γ` (mod `2π`) of the two azimuths of their root vertex -/
def StShift (γ : ℝ) : STree → STree → Prop
  | .leaf, .leaf => True
  | .node s1 s2 d1 d2, .node s1' s2' d1' d2' => StepShift γ s1 s1' ∧ StepShift γ s2 s2' ∧ d1' = d1 ∧ d2' = d2
  | _, _ => False

/-- **`below_top_steps_shift`** — daughter of the top vertex with helicity-frame momentum `r`: the step record
`cal_helicity_angle` produces below it from the axes `(z', x')` is the `StShift γ` of the one produced from `(z, x)`, with the
SAME `γ` as in the vertex equation `r'·U = Rotation_z(γ)·r`. -/
theorem below_top_steps_shift (U : M2) (z x z' x' : V3) (hA : AxesPair U z x z' x') (r : V4) (T : PTree) (g : V4 → V4)
    (bias bias' : ℝ) (hok : StepOK z r) (hok' : StepOK z' r)
    (hreg : RDecays (chainBoost T (fun q => r.restVector (g q))) → eps < r.boostVector.norm2)
    (hG : Guards (chainBoost T (fun q => r.restVector (g q))) r.vect (angleZxZGetx z x r.vect).x2)
    (hG' : Guards (chainBoost T (fun q => r.restVector (g q))) r.vect (angleZxZGetx z' x' r.vect).x2) :
    ∃ γ : ℝ, (stepR (shiftAlpha (angleZxZGetx z' x' r.vect).alpha bias') (angleZxZGetx z' x' r.vect).beta).mul U =
        (rotZ γ).mul (stepR (shiftAlpha (angleZxZGetx z x r.vect).alpha bias) (angleZxZGetx z x r.vect).beta) ∧
      StShift γ (stepTree (chainBoost T (fun q => r.restVector (g q))) r.vect (angleZxZGetx z x r.vect).x2)
        (stepTree (chainBoost T (fun q => r.restVector (g q))) r.vect (angleZxZGetx z' x' r.vect).x2) := by
  obtain ⟨F, hbz, hY⟩ := top_frame z x hA.ok.1 hA.ok.2
  obtain ⟨F', hbz', hY'⟩ := top_frame z' x' hA.ok'.1 hA.ok'.2
  cases T with
  | leaf p0 =>
    rw [hbz] at hok ⊢
    rw [hbz'] at hok' ⊢
    obtain ⟨γ, hγ⟩ := vertex_compose _ _ _ _ _ _ F F' _ _ hA.ok.2 hA.ok'.2 x x' hY hY' U hA.su2 hA.change r hok hok'
      bias bias'
    exact ⟨γ, hγ, trivial⟩
  | node p0 T1 T2 =>
    have hreg' := hreg (by simp only [chainBoost, RDecays])
    simp only [chainBoost, Guards] at hG hG'
    obtain ⟨hP, o1, o2, _⟩ := hG
    obtain ⟨hP', _, _, _⟩ := hG'
    rw [hbz] at hok hP
    rw [hbz'] at hok' hP'
    obtain ⟨γ, hγ, h2⟩ := vertex_compose_level2 _ _ _ _ _ _ F F' _ _ hA.ok.2 hA.ok'.2 x x' hY hY' U hA.su2 hA.change
      r hok hok' bias bias' hreg' hP hP'
    rw [← hbz, ← hbz'] at hγ h2
    refine ⟨γ, hγ, ?_⟩
    obtain ⟨_, _, c1, s1⟩ := h2 (g T1.p) o1
    obtain ⟨_, _, c2, s2⟩ := h2 (g T2.p) o2
    simp only [chainBoost, stepTree, StShift, StepShift]
    refine ⟨⟨?_, ?_, ?_, ?_⟩, ⟨?_, ?_, ?_, ?_⟩, ?_, ?_⟩
    any_goals trivial
    · rw [(shiftAlpha_cos_sin _ _).1, c1, (shiftAlpha_sub_cos_sin _ _ γ).1]
    · rw [(shiftAlpha_cos_sin _ _).2, s1, (shiftAlpha_sub_cos_sin _ _ γ).2]
    · rw [(shiftAlpha_cos_sin _ _).1, c2, (shiftAlpha_sub_cos_sin _ _ γ).1]
    · rw [(shiftAlpha_cos_sin _ _).2, s2, (shiftAlpha_sub_cos_sin _ _ γ).2]

/-- along every decay path: both step lists are empty, or they differ in the azimuth of their first step only -/
theorem StShift.steps {γ : ℝ} {d d' : STree} (h : StShift γ d d') (path : List Bool) (l l' : List Step)
    (hl : d.stepsAt path = some l) (hl' : d'.stepsAt path = some l') :
    (l = [] ∧ l' = []) ∨ ∃ t t' rest, l = t :: rest ∧ l' = t' :: rest ∧ StepShift γ t t' := by
  cases d with
  | leaf =>
    cases d' with
    | leaf =>
      cases path with
      | nil =>
        simp only [STree.stepsAt, Option.some.injEq] at hl hl'
        exact Or.inl ⟨hl.symm, hl'.symm⟩
      | cons b r => simp [STree.stepsAt] at hl
    | node _ _ _ _ => exact absurd h (by simp [StShift])
  | node s1 s2 d1 d2 =>
    cases d' with
    | leaf => exact absurd h (by simp [StShift])
    | node s1' s2' d1' d2' =>
      obtain ⟨h1, h2, e1, e2⟩ := h
      subst e1 e2
      right
      cases path with
      | nil => simp [STree.stepsAt] at hl
      | cons b r =>
        cases b with
        | false =>
          simp only [STree.stepsAt, Option.map_eq_some_iff] at hl hl'
          obtain ⟨m, hm, rfl⟩ := hl
          obtain ⟨m', hm', rfl⟩ := hl'
          rw [hm] at hm'
          cases hm'
          exact ⟨s1, s1', m, rfl, rfl, h1⟩
        | true =>
          simp only [STree.stepsAt, Option.map_eq_some_iff] at hl hl'
          obtain ⟨m, hm, rfl⟩ := hl
          obtain ⟨m', hm', rfl⟩ := hl'
          rw [hm] at hm'
          cases hm'
          exact ⟨s2, s2', m, rfl, rfl, h2⟩

end TfPwaV.AxesInd
