import TfPwaV.Proofs.LSCountP
/-!
# Counting lemmas for C13, C-parity requested (`ca = some c`), all spins

* `lsList_cparity_filter`: the list with `ca = some c` is the list without C-parity filtered by
  "s integral and c = (−1)^(l+s)" (any parity setting).
* `count_cparity_broken`: parity not used, `s` integral: for every `s` exactly the `l ≡ s + κ (mod 2)` survive out of an
  odd number `min(ja,s)+1` of consecutive values, the surplus has the same sign `c·(−1)^{ja/2}` for every `s`, hence
  `2·#couplings = helCount ± (min(jb,jc)+1)` — NOT the helicity count.
-/
namespace TfPwaV.LSCount
open TfPwaV.LS

theorem filterMap_and_filter {α β : Type} (a b : α → Bool) (f : α → β) (q : β → Bool)
    (hq : ∀ x, q (f x) = a x) (l : List α) :
    (l.filterMap fun x => if a x && b x then some (f x) else none)
      = (l.filterMap fun x => if b x then some (f x) else none).filter q := by
  induction l with
  | nil => rfl
  | cons x l ih =>
    rw [List.filterMap_cons, List.filterMap_cons]
    cases ha : a x <;> cases hb : b x <;>
      simp only [Bool.and_self, Bool.and_true, Bool.and_false, Bool.false_eq_true, ↓reduceIte, List.filter_cons, hq, ha, ih]

theorem lsInner_cparity_filter (ja : Nat) (pa pb pc : Option Int) (pBreak : Bool) (c : Int) (s2 : Nat) :
    lsInner ja pa pb pc pBreak (some c) s2
      = (lsInner ja pa pb pc pBreak none s2).filter (fun p => caOk (some c) p.1 p.2) := by
  unfold lsInner
  split
  · rfl
  · have := filterMap_and_filter (fun l2 => caOk (some c) (l2 / 2) s2) (fun l2 => pOk pa pb pc pBreak (l2 / 2))
      (fun l2 => (l2 / 2, s2)) (fun p => caOk (some c) p.1 p.2) (fun _ => rfl)
      (spinRange (absDiff ja s2) (ja + s2))
    rw [this]
    congr 1

theorem lsList_cparity_filter (ja jb jc : Nat) (pa pb pc : Option Int) (pBreak : Bool) (c : Int) :
    lsList ja jb jc pa pb pc pBreak (some c)
      = (lsList ja jb jc pa pb pc pBreak none).filter (fun p => caOk (some c) p.1 p.2) := by
  unfold lsList
  rw [List.filter_flatMap]
  congr 1
  funext s2
  exact lsInner_cparity_filter ja pa pb pc pBreak c s2

/-- C-parity requested, parity not used, `ja` and `s` integral: the `l` with `(l + s) % 2 = κ`, `c = (−1)^κ` -/
theorem lsInner_len_cparity (ja : Nat) (pa pb pc : Option Int) (pBreak : Bool) (c : Int) (s2 : Nat)
    (hc : c = 1 ∨ c = -1) (hja : ja % 2 = 0) (hs : s2 % 2 = 0) (hb : effBreak pa pb pc pBreak = true) :
    2 * (lsInner ja pa pb pc pBreak (some c) s2).length + (if c = negOnePow (ja / 2) then 0 else 1)
      = min ja s2 + 1 + (if c = negOnePow (ja / 2) then 1 else 0) := by
  rw [lsInner_len _ _ _ _ _ _ _ (by omega)]
  have ha : absDiff ja s2 = max ja s2 - min ja s2 := absDiff_eq ja s2
  have e : cnt (fun i => caOk (some c) ((absDiff ja s2 + 2 * i) / 2) s2 && pOk pa pb pc pBreak ((absDiff ja s2 + 2 * i) / 2))
      (min ja s2 + 1)
      = cnt (fun i => ((max ja s2 - min ja s2) / 2 + s2 / 2 + i) % 2 == (if c = 1 then 0 else 1)) (min ja s2 + 1) := by
    apply cnt_congr
    intro i _
    have e1 : (absDiff ja s2 + 2 * i) / 2 + s2 / 2 = (max ja s2 - min ja s2) / 2 + s2 / 2 + i := by omega
    simp only [caOk, pOk, hb, Bool.true_or, Bool.and_true]
    rw [if_neg (by omega), e1]
    unfold negOnePow
    rcases hc with rfl | rfl
    · split <;> simp <;> omega
    · split <;> simp <;> omega
  rw [e, cnt_parity' _ _ _ (by split <;> omega)]
  unfold negOnePow
  rcases hc with rfl | rfl
  · simp only [if_true]
    split <;> simp <;> omega
  · simp only [show ¬ ((-1 : Int) = 1) by decide, if_false]
    split <;> simp <;> omega

/-- the invariant of the C-parity count -/
def CInv (ja : Nat) (pa pb pc : Option Int) (pBreak : Bool) (c : Int) (jb jc : Nat) : Prop :=
  (jb + jc) % 2 = 0 →
    2 * (lsList ja jb jc pa pb pc pBreak (some c)).length + (if c = negOnePow (ja / 2) then 0 else min jb jc + 1)
      = helCount ja jb jc + (if c = negOnePow (ja / 2) then min jb jc + 1 else 0)

/-- **count with C-parity, parity not used, integral `ja` and `s`, all spins** -/
theorem count_cparity_broken (ja : Nat) (pa pb pc : Option Int) (pBreak : Bool) (c : Int)
    (hc : c = 1 ∨ c = -1) (hja : ja % 2 = 0) (hb : effBreak pa pb pc pBreak = true) (jb jc : Nat)
    (h : (jb + jc) % 2 = 0) :
    2 * (lsList ja jb jc pa pb pc pBreak (some c)).length + (if c = negOnePow (ja / 2) then 0 else min jb jc + 1)
      = helCount ja jb jc + (if c = negOnePow (ja / 2) then min jb jc + 1 else 0) := by
  refine diag_induction (CInv ja pa pb pc pBreak c) ?_ ?_ ?_ jb jc h
  · intro jc
    unfold CInv
    intro h
    have hi := lsInner_len_cparity ja pa pb pc pBreak c jc hc hja (by omega) hb
    rw [lsList_zero_left, helCount_zero_left _ _ (by omega)]
    by_cases hcn : c = negOnePow (ja / 2)
    · simp only [if_pos hcn] at hi ⊢; omega
    · simp only [if_neg hcn] at hi ⊢; omega
  · intro jb
    unfold CInv
    intro h
    have hi := lsInner_len_cparity ja pa pb pc pBreak c (jb + 1) hc hja (by omega) hb
    rw [lsList_zero_right, helCount_zero_right _ _ (by omega)]
    by_cases hcn : c = negOnePow (ja / 2)
    · simp only [if_pos hcn] at hi ⊢; omega
    · simp only [if_neg hcn] at hi ⊢; omega
  · intro jb jc ih
    unfold CInv at ih ⊢
    intro h
    have ih := ih (by omega)
    have hbd := helCount_border ja jb jc (by omega)
    have hi := lsInner_len_cparity ja pa pb pc pBreak c (jb + jc + 2) hc hja (by omega) hb
    rw [lsList_len_step, helCount_step]
    by_cases hcn : c = negOnePow (ja / 2)
    · simp only [if_pos hcn] at hi ih ⊢; omega
    · simp only [if_neg hcn] at hi ih ⊢; omega

/-! ## equal daughter spins: the helicity square splits into the diagonal and two mirror halves -/

/-- helicity pairs (λb, λc) of two daughters of equal spin `j` (doubled) with λb < λc and |λb − λc| ≤ ja:
one representative of every two-element orbit of the exchange (λb, λc) ↔ (λc, λb) -/
def offDiag (ja j : Nat) : Nat :=
  ((List.range (j + 1)).flatMap fun (ib : Nat) => (List.range (j + 1)).filter fun (ic : Nat) =>
    decide (ib < ic ∧ 2 * (ic - ib) ≤ ja)).length

def qd (ja ib ic : Nat) : Bool := decide (2 * (ic - ib) ≤ ja ∧ 2 * (ib - ic) ≤ ja)
def rd (ja ib ic : Nat) : Bool := decide (ib < ic ∧ 2 * (ic - ib) ≤ ja)

theorem cnt_false {p : Nat → Bool} {n : Nat} (h : ∀ i, i < n → p i = false) : cnt p n = 0 := by
  rw [cnt_congr (q := fun _ => false) h]
  induction n with
  | zero => rfl
  | succ n ih => rw [cnt_succ, ih (fun i hi => h i (by omega))]; rfl

theorem sq_off (ja : Nat) : ∀ n : Nat,
    sumR (fun ib => cnt (qd ja ib) n) n = 2 * sumR (fun ib => cnt (rd ja ib) n) n + n
  | 0 => rfl
  | n + 1 => by
    have ih := sq_off ja n
    rw [sumR_succ, sumR_succ, sumR_cnt_succ, sumR_cnt_succ, ih, cnt_succ]
    have h1 : cnt (rd ja n) (n + 1) = 0 := cnt_false (by intro i hi; unfold rd; simp; omega)
    have h2 : cnt (qd ja n) n = cnt (fun i => qd ja i n) n := by
      apply cnt_congr; intro i _; unfold qd; apply decide_eq_decide.2; omega
    have h3 : cnt (fun i => rd ja i n) n = cnt (fun i => qd ja i n) n := by
      apply cnt_congr; intro i hi; unfold rd qd; apply decide_eq_decide.2; omega
    have h4 : qd ja n n = true := by unfold qd; simp
    rw [h1, h2, h3, h4]
    simp only [if_true]
    omega

theorem helCount_diag (ja j : Nat) : helCount ja j j = 2 * offDiag ja j + (j + 1) := by
  have e1 : helCount ja j j = sumR (fun ib => cnt (qd ja ib) (j + 1)) (j + 1) := by
    rw [helCount_eq]
    apply sumR_congr; intro ib _
    apply cnt_congr; intro ic _
    unfold hp qd; apply decide_eq_decide.2; omega
  have e2 : offDiag ja j = sumR (fun ib => cnt (rd ja ib) (j + 1)) (j + 1) := by
    unfold offDiag sumR cnt
    rw [List.length_flatMap]
    rfl
  rw [e1, e2, sq_off]

end TfPwaV.LSCount
