import TfPwaV.Model.LSGram
/-! Kernel-evaluated exact Gram identity of the LS→helicity matrix (see `LSGram.gramCheck`), parent spin 2ja = 0, daughters 2j ≤ 5. -/
namespace TfPwaV.LSGram
theorem gram_block_0 : ((List.range 6).all fun b => (List.range 6).all fun c => gramCheck 0 b c) = true := by decide +kernel
end TfPwaV.LSGram
