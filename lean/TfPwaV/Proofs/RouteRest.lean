import TfPwaV.Gen.RouteRestR
import TfPwaV.Proofs.CascadeTree
import TfPwaV.Props.C02d
/-!
Helper lemmas for `Props/C02e.lean`, part 1 (one vertex): coordinates of four-vectors along an orthonormal frame,
covariance of `LorentzVector.rest_vector` under a change of frame, the polar representation of an arbitrary vector in a
frame, and the single-vertex statement: the `(alpha, beta, omega)` that `cal_helicity_angle` records for a daughter
(`angle_zx_z_getx` with the un-normalised `set_z`, the `alpha` range shift, `LorentzVector.omega`) describe the
daughter's momentum in the mother's helicity frame, and `Boost_z(ω)·Rotation_y(β)·Rotation_z(α)` is the passage from the
mother's helicity frame to the daughter's (`rest_vector` followed by the new axes `set_x`, `set_z`).
-/
open TfPwaV.ScalarR
namespace TfPwaV.C02
open TfPwaV.KinR TfPwaV.AngleR TfPwaV.CascadeR TfPwaV.SL2CR TfPwaV.RouteRestR TfPwaV.C11

/-! ### coordinates along a frame -/

def coords3 (X Y Z v : V3) : V3 := ⟨X.dot v, Y.dot v, Z.dot v⟩

theorem coords_vect (X Y Z : V3) (p : V4) : (coords X Y Z p).vect = coords3 X Y Z p.vect := rfl

section frame
variable {X Y Z : V3}

/-- an orthonormal right-handed triple is complete -/
theorem frame_complete (hF : IsFrame X Y Z) (v : V3) :
    v = ((V3.smul (X.dot v) X).add (V3.smul (Y.dot v) Y)).add (V3.smul (Z.dot v) Z) := by
  have key : V3.smul (X.dot (Y.cross Z)) v =
      ((V3.smul (X.dot v) (Y.cross Z)).add (V3.smul (Y.dot v) (Z.cross X))).add (V3.smul (Z.dot v) (X.cross Y)) := by
    ext <;> simp only [V3.smul, V3.add, V3.dot, V3.cross] <;> ring
  rw [hF.cyz, hF.czx, hF.cxy, hF.xx, one_smul'] at key
  exact key

theorem coords3_dot (hF : IsFrame X Y Z) (a b : V3) : (coords3 X Y Z a).dot (coords3 X Y Z b) = a.dot b := by
  have h := congrArg (fun w => a.dot w) (frame_complete hF b)
  simp only [coords3, V3.dot, V3.add, V3.smul] at h ⊢
  linear_combination (-1 : ℝ) * h

theorem coords3_norm2 (hF : IsFrame X Y Z) (a : V3) : (coords3 X Y Z a).norm2 = a.norm2 := coords3_dot hF a a

/-- **`rest_vector` is covariant under a change of orthonormal axes** (all four-vectors, no guard needed) -/
theorem coords_restVector (hF : IsFrame X Y Z) (a b : V4) :
    coords X Y Z (a.restVector b) = (coords X Y Z a).restVector (coords X Y Z b) := by
  unfold V4.restVector
  rw [boost_form, boost_form]
  have hv : (coords X Y Z a).boostVector.neg = coords3 X Y Z a.boostVector.neg := by
    ext <;> simp only [coords, coords3, V4.boostVector, V3.neg, V3.dot, V4.vect] <;> ring
  rw [hv, coords3_norm2 hF, coords_vect, coords3_dot hF]
  generalize gammaOf _ = g
  generalize gamma2Of _ = g2
  generalize V3.dot a.boostVector.neg b.vect = d
  ext <;> simp only [coords, coords3, V3.dot, V4.vect] <;> ring

/-- the new x-axis `y' × z'` in the old frame -/
theorem xNew_eq (hF : IsFrame X Y Z) (θ φ : ℝ) :
    (yNew X Y φ).cross (dir X Y Z θ φ) =
      ((V3.smul (Real.cos θ * Real.cos φ) X).add (V3.smul (Real.cos θ * Real.sin φ) Y)).add
        (V3.smul (-Real.sin θ) Z) := by
  have sc := Real.sin_sq_add_cos_sq φ
  have yX : Y.cross X = V3.smul (-1) Z := by rw [cross_anti, hF.cxy]
  have xZ : X.cross Z = V3.smul (-1) Y := by rw [cross_anti, hF.czx]
  unfold yNew dir
  simp only [cross_add_left, cross_add_right, cross_smul_left, cross_smul_right, cross_self, hF.cxy, hF.cyz, yX, xZ]
  ext <;> simp only [V3.smul, V3.add, V3.zero]
  · linear_combination (-(Real.sin θ * Z.x)) * sc
  · linear_combination (-(Real.sin θ * Z.y)) * sc
  · linear_combination (-(Real.sin θ * Z.z)) * sc

/-- **coordinates in the daughter's axes** `(y' × z', y', z')` = the rotation `Rotation_y(θ)·Rotation_z(φ)` of the
coordinates in the mother's axes -/
theorem coords_new_frame (hF : IsFrame X Y Z) (θ φ : ℝ) (p : V4) :
    coords ((yNew X Y φ).cross (dir X Y Z θ φ)) (yNew X Y φ) (dir X Y Z θ φ) p =
      rotYv θ (rotZv φ (coords X Y Z p)) := by
  rw [xNew_eq hF]
  unfold yNew dir
  ext <;> simp only [coords, rotYv, rotZv, dot_add_left, dot_smul_left, kcos, ksin] <;> ring

/-- every vector off the z-axis of a frame is `P·dir(θ, φ)` with `0 < θ < π`, `−π < φ ≤ π` -/
theorem exists_polar (hF : IsFrame X Y Z) (v : V3) (hxy : 0 < X.dot v * X.dot v + Y.dot v * Y.dot v) :
    ∃ P θ φ : ℝ, 0 < P ∧ 0 < θ ∧ θ < Real.pi ∧ -Real.pi < φ ∧ φ ≤ Real.pi ∧
      v = V3.smul P (dir X Y Z θ φ) ∧ P = Real.sqrt v.norm2 ∧
      P * Real.sin θ = Real.sqrt (X.dot v * X.dot v + Y.dot v * Y.dot v) := by
  have hcomp := frame_complete hF v
  have hn2 : v.norm2 = X.dot v * X.dot v + Y.dot v * Y.dot v + Z.dot v * Z.dot v := by
    have := coords3_norm2 hF v
    simp only [coords3, V3.norm2] at this
    simp only [V3.norm2]; linarith
  set a := X.dot v with ha
  set b := Y.dot v with hb
  set c := Z.dot v with hc
  have hn : 0 < a * a + b * b + c * c := by nlinarith [mul_self_nonneg c]
  set n := Real.sqrt (a * a + b * b + c * c) with hn_def
  have hnpos : 0 < n := Real.sqrt_pos.mpr hn
  have hnn : n * n = a * a + b * b + c * c := Real.mul_self_sqrt hn.le
  set ρ := Real.sqrt (a * a + b * b) with hρ_def
  have hρpos : 0 < ρ := Real.sqrt_pos.mpr hxy
  have hρρ : ρ * ρ = a * a + b * b := Real.mul_self_sqrt hxy.le
  have hsin : Real.sin (Real.arccos (c / n)) = ρ / n := by
    rw [Real.sin_arccos]
    have : 1 - (c / n) ^ 2 = (ρ / n) ^ 2 := by field_simp; nlinarith
    rw [this, Real.sqrt_sq (by positivity)]
  have hlt : c / n < 1 := by
    rw [div_lt_one hnpos]
    by_contra h
    have h' := not_lt.mp h
    nlinarith
  have hgt : -1 < c / n := by
    rw [lt_div_iff₀ hnpos]
    by_contra h
    have h' := not_lt.mp h
    nlinarith
  have hcos : Real.cos (Real.arccos (c / n)) = c / n := Real.cos_arccos hgt.le hlt.le
  have hz0 : (⟨a, b⟩ : ℂ) ≠ 0 := by
    intro h
    have h1 := congrArg Complex.re h
    have h2 := congrArg Complex.im h
    simp only [Complex.zero_re, Complex.zero_im] at h1 h2
    rw [h1, h2] at hxy
    simp at hxy
  have habs : ‖(⟨a, b⟩ : ℂ)‖ = ρ := by
    rw [Complex.norm_def, Complex.normSq_mk]
  have hca : Real.cos (Complex.arg ⟨a, b⟩) = a / ρ := by rw [Complex.cos_arg hz0, habs]
  have hsa : Real.sin (Complex.arg ⟨a, b⟩) = b / ρ := by rw [Complex.sin_arg, habs]
  refine ⟨n, Real.arccos (c / n), Complex.arg ⟨a, b⟩, hnpos, Real.arccos_pos.mpr hlt, Real.arccos_lt_pi.mpr hgt,
    Complex.neg_pi_lt_arg _, Complex.arg_le_pi _, ?_, ?_, ?_⟩
  · conv_lhs => rw [hcomp]
    unfold dir
    rw [hsin, hcos, hca, hsa]
    ext <;> simp only [V3.smul, V3.add] <;> field_simp
  · rw [hn2]
  · rw [hsin]; field_simp

end frame

/-! ### small facts -/

/-- `unit` of a non-zero vector -/
theorem unit_spec (a : V3) (h : 0 < a.norm2) : a = V3.smul a.norm a.unit ∧ a.unit.norm2 = 1 ∧ 0 < a.norm := by
  have hn : 0 < a.norm := Real.sqrt_pos.mpr h
  have hnn : a.norm * a.norm = a.norm2 := Real.mul_self_sqrt h.le
  refine ⟨?_, ?_, hn⟩
  · ext <;> simp only [V3.smul, V3.unit] <;> field_simp
  · simp only [V3.unit, V3.norm2] at hnn ⊢
    field_simp
    linarith

/-- the length of `(s·Z) × v` for a unit vector `Z`: the quantity `cross_unit(set_z, ·)` compares with `1e-14` -/
theorem norm_cross_smul {X Y Z : V3} (hF : IsFrame X Y Z) (s : ℝ) (hs : 0 < s) (v : V3) :
    ((V3.smul s Z).cross v).norm = s * Real.sqrt (X.dot v * X.dot v + Y.dot v * Y.dot v) := by
  have hn2 : v.norm2 = X.dot v * X.dot v + Y.dot v * Y.dot v + Z.dot v * Z.dot v := by
    have := coords3_norm2 hF v
    simp only [coords3, V3.norm2] at this
    simp only [V3.norm2]; linarith
  have hzz : Z.norm2 = 1 := by rw [norm2_eq_dot]; exact hF.zz
  unfold V3.norm ksqrt
  rw [cross_smul_left, show (V3.smul s (Z.cross v)).norm2 = s * s * (Z.cross v).norm2 by
    simp only [V3.smul, V3.norm2]; ring, norm2_cross, hzz, hn2,
    show s * s * (1 * (X.dot v * X.dot v + Y.dot v * Y.dot v + Z.dot v * Z.dot v) - Z.dot v ^ 2) =
      s * s * (X.dot v * X.dot v + Y.dot v * Y.dot v) by ring,
    Real.sqrt_mul (mul_self_nonneg s), Real.sqrt_mul_self hs.le]

/-- the `alpha` range shift of `cal_helicity_angle` changes `alpha` by a multiple of `2π` -/
theorem shiftAlpha_cos_sin (a bias : ℝ) :
    Real.cos (shiftAlpha a bias) = Real.cos a ∧ Real.sin (shiftAlpha a bias) = Real.sin a := by
  have h : shiftAlpha a bias = a - (⌊(a - bias) / (2 * kpi)⌋ : ℤ) * (2 * Real.pi) := by
    unfold shiftAlpha kmod kfloor kpi; ring
  rw [h]
  exact ⟨Real.cos_sub_int_mul_two_pi _ _, Real.sin_sub_int_mul_two_pi _ _⟩

theorem polar_congr (m α α' β ω : ℝ) (hc : Real.cos α' = Real.cos α) (hs : Real.sin α' = Real.sin α) :
    polar m α' β ω = polar m α β ω := by
  unfold polar; rw [hc, hs]

theorem rotZv_congr (α α' : ℝ) (hc : Real.cos α' = Real.cos α) (hs : Real.sin α' = Real.sin α) (p : V4) :
    rotZv α' p = rotZv α p := by
  unfold rotZv kcos ksin; rw [hc, hs]

/-- `angle_zx_z_getx` reads `x1` only through `cross_unit(z1, x1)` -/
theorem getx_congr (z x x' v : V3) (h : crossUnit z x = crossUnit z x') : angleZxZGetx z x v = angleZxZGetx z x' v := by
  unfold angleZxZGetx
  simp only [h]

/-! ### one vertex -/

/-- What one pass of the inner loop of `cal_helicity_angle` establishes for a daughter with helicity-frame momentum `r`
(`= rest_p[j]`), the mother's axes being `set_z = s·Z`, `set_x = x` with `cross_unit(set_z, set_x) = Y`:
the daughter's axes `(x2, Y', Z')` are an orthonormal frame with `set_z[j] = vect r = P·Z'`; the recorded
`(alpha, beta, omega)` are the polar form of `r` in the mother's frame; and the recorded step IS the passage from the
mother's to the daughter's helicity frame, for every four-vector. -/
structure VertexFacts (X Y Z : V3) (out : StepOut) (st : Step) (r : V4) : Prop where
  ex : ∃ (Y' Z' : V3) (P : ℝ), IsFrame out.x2 Y' Z' ∧ 0 < P ∧ r.vect = V3.smul P Z' ∧
    (eps < r.boostVector.norm2 → ∀ q, coords out.x2 Y' Z' (r.restVector q) = stepL st (coords X Y Z q))
  mpos : 0 < Real.sqrt r.m2
  tracks : coords X Y Z r = polar (Real.sqrt r.m2) st.alpha st.beta st.omega

theorem vertex_facts (X Y Z : V3) (hF : IsFrame X Y Z) (s : ℝ) (hs : eps ≤ s) (x : V3)
    (hx : crossUnit (V3.smul s Z) x = Y) (r : V4) (ht : 0 < r.t) (hq : r.vect.norm2 < r.t ^ 2)
    (hg : eps ≤ ((V3.smul s Z).cross r.vect).norm) (bias : ℝ) :
    VertexFacts X Y Z (angleZxZGetx (V3.smul s Z) x r.vect)
      ⟨shiftAlpha (angleZxZGetx (V3.smul s Z) x r.vect).alpha bias, (angleZxZGetx (V3.smul s Z) x r.vect).beta,
        omegaP r⟩ r := by
  have hs0 : 0 < s := lt_of_lt_of_le eps_pos hs
  -- the code's `x` may be replaced by the frame's X
  have hX : crossUnit (V3.smul s Z) X = Y :=
    crossUnit_eq _ X Y s (by rw [cross_smul_left, hF.czx]) (by rw [norm2_eq_dot]; exact hF.yy) hs
  rw [getx_congr _ x X _ (by rw [hx, hX])]
  -- polar representation of vect r
  rw [norm_cross_smul hF s hs0] at hg
  have hρ : 0 < Real.sqrt (X.dot r.vect * X.dot r.vect + Y.dot r.vect * Y.dot r.vect) := by
    by_contra h
    have h' := not_lt.mp h
    have : s * Real.sqrt (X.dot r.vect * X.dot r.vect + Y.dot r.vect * Y.dot r.vect) ≤ 0 :=
      mul_nonpos_of_nonneg_of_nonpos hs0.le h'
    linarith [eps_pos]
  have hxy : 0 < X.dot r.vect * X.dot r.vect + Y.dot r.vect * Y.dot r.vect := Real.sqrt_pos.mp hρ
  obtain ⟨P, θ, φ, hP, hθ0, hθπ, hφ0, hφπ, hv, hPn, hPs⟩ := exists_polar hF r.vect hxy
  have hguard : eps ≤ s * (P * Real.sin θ) := by rw [hPs]; exact hg
  obtain ⟨oa, ob, ox⟩ := angle_step_scaled X Y Z hF s P θ φ hs hP hθ0 hθπ hφ0 hφπ hguard
  rw [← hv] at oa ob ox
  obtain ⟨hcα, hsα⟩ := shiftAlpha_cos_sin φ bias
  -- rapidity
  obtain ⟨hE, hS⟩ := omegaP_spec r ht hq
  rw [← hPn] at hS
  have hm2 : 0 < r.m2 := by
    simp only [V4.m2, V4.dot, V4.vect, V3.norm2] at hq ⊢
    nlinarith
  have hm : 0 < Real.sqrt r.m2 := Real.sqrt_pos.mpr hm2
  have F1 := frame_first hF θ φ
  -- coordinates of r in the old and the new frame
  have hrX : X.dot r.vect = P * (Real.sin θ * Real.cos φ) := by
    rw [hv, dot_smul_right]; unfold dir
    simp only [dot_add_right, dot_smul_right, hF.xx, hF.xy, dot_comm X Z, hF.zx]; ring
  have hrY : Y.dot r.vect = P * (Real.sin θ * Real.sin φ) := by
    rw [hv, dot_smul_right]; unfold dir
    simp only [dot_add_right, dot_smul_right, hF.yy, dot_comm Y X, hF.xy, hF.yz]; ring
  have hrZ : Z.dot r.vect = P * Real.cos θ := by
    rw [hv, dot_smul_right]; unfold dir
    simp only [dot_add_right, dot_smul_right, hF.zz, hF.zx, dot_comm Z Y, hF.yz]; ring
  refine ⟨⟨yNew X Y φ, dir X Y Z θ φ, P, ?_, hP, hv, ?_⟩, hm, ?_⟩
  · rw [ox]; exact F1
  · intro hreg q
    rw [ox, ob, oa, coords_restVector F1, coords_new_frame hF θ φ q]
    have hr' : coords ((yNew X Y φ).cross (dir X Y Z θ φ)) (yNew X Y φ) (dir X Y Z θ φ) r =
        ⟨Real.sqrt r.m2 * Real.cosh (omegaP r), 0, 0, Real.sqrt r.m2 * Real.sinh (omegaP r)⟩ := by
      rw [hE, hS]
      ext <;> simp only [coords] <;> rw [hv, dot_smul_right]
      · rw [dot_comm, F1.zx]; ring
      · rw [F1.yz]; ring
      · rw [F1.zz]; ring
    have htanh : Real.tanh (omegaP r) ^ 2 = r.boostVector.norm2 := by
      rw [Real.tanh_eq_sinh_div_cosh]
      have h1 : Real.sinh (omegaP r) = P / Real.sqrt r.m2 := by field_simp; linarith
      have h2 : Real.cosh (omegaP r) = r.t / Real.sqrt r.m2 := by field_simp; linarith
      have hPP : P * P = r.vect.norm2 := by rw [hPn]; exact Real.mul_self_sqrt (by
        simp only [V3.norm2]; nlinarith [mul_self_nonneg r.vect.x, mul_self_nonneg r.vect.y, mul_self_nonneg r.vect.z])
      rw [h1, h2]
      simp only [V4.boostVector, V3.norm2, V4.vect] at hPP ⊢
      field_simp
      linarith
    rw [hr', boostZv_eq_restVector _ _ hm (by rw [htanh]; exact hreg)]
    unfold stepL
    simp only
    rw [rotZv_congr φ _ hcα hsα]
  · rw [oa, ob]
    simp only
    rw [polar_congr _ φ _ _ _ hcα hsα]
    ext <;> simp only [coords, polar]
    · exact hE.symm
    · rw [hS, hrX]
    · rw [hS, hrY]
    · rw [hS, hrZ]

end TfPwaV.C02
