import TfPwaV.Proofs.PhspShell
/-! Helper lemmas for C10 (part c): every keyword path of `PhaseSpaceGenerator.generate`, the recursion of the
phase-space weight, the pointwise accept/reject step. -/
open TfPwaV.ScalarR
namespace TfPwaV.PhspR
open TfPwaV.KinR

/-! ### the product of break-up momenta and its recursion -/

theorem prodL_append (a b : List ℝ) : prodL (a ++ b) = prodL a * prodL b := by
  induction a with
  | nil => simp [prodL_nil]
  | cons x t ih => rw [List.cons_append, prodL_cons, prodL_cons, ih, mul_assoc]

/-- numerator of `get_weight`: `Π q_i` over the `n-1` two-body steps -/
noncomputable def qProd (m0 : ℝ) (mass ms : List ℝ) : ℝ :=
  prodL (qListAux id m0 (mass.reverse.headD 0) true ms (mass.reverse.drop 1))

/-- one more (outermost) decay step appends one factor: the list of break-up momenta of the `n`-body chain with
last intermediate mass `M` is the list of the `(n-1)`-body chain of parent mass `M` plus `q(m0; M, m1)` -/
theorem qListAux_snoc (m0 M m1 : ℝ) : ∀ (ms rs : List ℝ) (mp : ℝ) (py py' : Bool), rs.length = ms.length + 1 →
    qListAux id m0 mp py (ms ++ [M]) (rs ++ [m1]) = qListAux id M mp py' ms rs ++ [getP m0 M m1] := by
  intro ms
  induction ms with
  | nil =>
    intro rs mp py py' hlen
    match rs, hlen with
    | [r], _ =>
      cases py' <;> simp [qListAux, getPpy_id, getPm_id]
  | cons m ms' ih =>
    intro rs mp py py' hlen
    match rs, hlen with
    | r :: rs', hlen =>
      simp only [List.cons_append, qListAux]
      rw [ih rs' m false false (by simpa using hlen)]

/-- the textbook recursion of the n-body phase-space mass spectrum, written head first on the constructor's order of
the daughters and on the intermediate masses from the heaviest system down:
`R_2(M; a, b) = q(M; a, b)`, `R_n(M; a, rest; M', …) = R_{n-1}(M'; rest; …) · q(M; M', a)` -/
noncomputable def lipsR : ℝ → List ℝ → List ℝ → ℝ
  | M, [a, b], [] => getP M b a
  | M, a :: rest, Ml :: msr => lipsR Ml rest msr * getP M Ml a
  | _, _, _ => 1

theorem qProd_two (m0 a b : ℝ) : qProd m0 [a, b] [] = getP m0 b a := by
  simp [qProd, qListAux, getPpy_id, prodL_cons, prodL_nil]

theorem qProd_rec (m0 m1 M : ℝ) (rest ms : List ℝ) (hlen : ms.length + 2 = rest.length) :
    qProd m0 (m1 :: rest) (ms ++ [M]) = qProd M rest ms * getP m0 M m1 := by
  unfold qProd
  have hrev : (m1 :: rest).reverse = rest.reverse ++ [m1] := by simp
  cases hr : rest.reverse with
  | nil =>
    have : rest.length = 0 := by rw [← List.length_reverse, hr]; rfl
    omega
  | cons r0 rs =>
    have hl : rs.length = ms.length + 1 := by
      have : rest.length = rs.length + 1 := by rw [← List.length_reverse, hr]; simp
      omega
    rw [hrev, hr]
    simp only [List.cons_append, List.headD_cons, List.drop_succ_cons, List.drop_zero]
    rw [qListAux_snoc m0 M m1 ms rs r0 true true hl, prodL_append, prodL_cons, prodL_nil, mul_one]

/-! ### counting on every keyword path -/

theorem flattenMass_length_le (wf : List ℝ → ℝ) (rows : List (List ℝ)) (rnd : List ℝ) :
    (flattenMass wf rows rnd).length ≤ rows.length := by
  unfold flattenMass
  calc _ ≤ (rows.zip rnd).length := List.length_filterMap_le _ _
    _ ≤ rows.length := by rw [List.length_zip]; exact Nat.min_le_left _ _

theorem batch_length_le {r32 : ℝ → ℝ} {m0 : ℝ} {mass : List ℝ} {imp : Bool} {n : Nat} {ds ds' : List (List ℝ)}
    {acc : List (List ℝ)} (h : batch r32 m0 mass imp n ds = some (acc, ds')) : acc.length ≤ n := by
  unfold batch at h
  cases hm : drawMany n (mass.length - 2) ds with
  | none => rw [hm] at h; simp at h
  | some q =>
    obtain ⟨cols, ds1⟩ := q
    rw [hm] at h
    simp only at h
    cases hd : draw n ds1 with
    | none => rw [hd] at h; simp at h
    | some q2 =>
      obtain ⟨rnd, ds2⟩ := q2
      rw [hd] at h
      simp only [Option.some.injEq, Prod.mk.injEq] at h
      obtain ⟨h1, _⟩ := h
      subst h1
      refine le_trans (flattenMass_length_le _ _ _) ?_
      rw [List.length_map, rowsOf_length _ _ (drawMany_lengths _ _ _ _ _ hm).1]

theorem generateMass_nil (m0 : ℝ) (mass : List ℝ) : generateMass m0 mass [] = [] := by
  unfold generateMass
  cases h : mass.reverse.drop 1 with
  | nil => simp [generateMassAux]
  | cons a t => cases t <;> simp [generateMassAux]

theorem rowsOf_nil (n : Nat) : rowsOf n ([] : List (List ℝ)) = List.replicate n [] := by simp [rowsOf]

theorem mapM_option_length {α β : Type} (f : α → Option β) : ∀ (l : List α) (r : List β),
    l.mapM f = some r → r.length = l.length := by
  intro l
  induction l with
  | nil => intro r h; simp at h; subst h; rfl
  | cons a t ih =>
    intro r h
    rw [List.mapM_cons] at h
    cases ha : f a with
    | none => rw [ha] at h; simp at h
    | some b =>
      rw [ha] at h
      cases ht : t.mapM f with
      | none => rw [ht] at h; simp at h
      | some bs =>
        rw [ht] at h
        simp at h
        subst h
        simp [ih bs ht]

/-! ### the accept/reject step, pointwise -/

theorem flattenMass_single (wf : List ℝ → ℝ) (row : List ℝ) (u : ℝ) :
    flattenMass wf [row] [u] = if u < wf row then [row] else [] := by
  unfold flattenMass
  by_cases h : u < wf row
  · simp [h]
  · simp [h]

theorem flattenMass_replicate_length (wf : List ℝ → ℝ) (row : List ℝ) : ∀ (rs : List ℝ),
    (flattenMass wf (List.replicate rs.length row) rs).length = rs.countP fun r => decide (r < wf row)
  | [] => by simp [flattenMass]
  | r :: rs => by
    have ih := flattenMass_replicate_length wf row rs
    unfold flattenMass at ih ⊢
    simp only [List.length_cons, List.replicate_succ, List.zip_cons_cons, List.filterMap_cons, List.countP_cons]
    by_cases h : r < wf row
    · simp [h, ih]
    · simp [h, ih]

theorem mem_zipWith' {α β γ : Type} (f : α → β → γ) : ∀ (a : List α) (b : List β) (e : γ),
    e ∈ List.zipWith f a b → ∃ x ∈ a, ∃ y ∈ b, e = f x y
  | [], _, e, h => by simp at h
  | _ :: _, [], e, h => by simp at h
  | x :: xs, y :: ys, e, h => by
    simp only [List.zipWith_cons_cons, List.mem_cons] at h
    rcases h with h | h
    · exact ⟨x, by simp, y, by simp, h⟩
    · obtain ⟨x', hx, y', hy, he⟩ := mem_zipWith' f xs ys e h
      exact ⟨x', by simp [hx], y', by simp [hy], he⟩

end TfPwaV.PhspR
