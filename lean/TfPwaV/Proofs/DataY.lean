import TfPwaV.Model.DataY
import TfPwaV.Proofs.DataX
/-!
Helper lemmas for C18c (core Lean only).
-/
namespace TfPwaV.DataY
open TfPwaV.Data TfPwaV.DataX

variable {α β γ : Type}

-- §1 dat_order ------------------------------------------------------------------------------------------

theorem map_idxOf_nodup (l : List String) (h : l.Nodup) : l.map (fun k => l.idxOf k) = List.range l.length := by
  apply List.ext_getElem
  · simp
  · intro i h1 h2
    simp only [List.getElem_map, List.getElem_range]
    exact h.idxOf_getElem i (by simpa using h1)

theorem lookupP_zip_getElem : (order : List String) → (cols : List β) → order.Nodup → cols.length ≤ order.length →
    ∀ i (hi : i < cols.length) (ho : i < order.length), lookupP order[i] (order.zip cols) = some cols[i]
  | [], cols, _, hl => by intro i hi; simp at hl; subst hl; simp at hi
  | k :: rest, [], _, _ => by intro i hi; simp at hi
  | k :: rest, c :: cs, hnd, hl => by
    intro i hi ho
    have hnd' := List.nodup_cons.mp hnd
    cases i with
    | zero => simp [lookupP]
    | succ j =>
      have hj : j < cs.length := by simpa using hi
      have hjo : j < rest.length := by simpa using ho
      have hne : k ≠ rest[j] := by
        intro h; exact hnd'.1 (h ▸ List.getElem_mem hjo)
      simp only [List.zip_cons_cons, lookupP, List.getElem_cons_succ, hne, if_false]
      exact lookupP_zip_getElem rest cs hnd'.2 (by simpa using hl) j hj hjo

theorem zip_keys_sublist : (order : List String) → (cols : List β) → ((order.zip cols).map (·.1)).Sublist order
  | [], _ => by simp
  | _ :: _, [] => by simp
  | k :: rest, c :: cs => by
    simp only [List.zip_cons_cons, List.map_cons]
    exact (zip_keys_sublist rest cs).cons_cons k

theorem zip_keys_nodup (order : List String) (cols : List β) (h : order.Nodup) :
    ((order.zip cols).map (·.1)).Nodup := h.sublist (zip_keys_sublist order cols)

theorem mapM_getElem? {δ ε : Type} (f : δ → Option ε) : (l : List δ) → (r : List ε) → l.mapM f = some r →
    r.length = l.length ∧ ∀ (i : Nat) (x : δ), l[i]? = some x → ∃ y, f x = some y ∧ r[i]? = some y
  | [], r, h => by
    simp at h; subst h; simp
  | a :: t, r, h => by
    rw [List.mapM_cons] at h
    cases hfa : f a with
    | none => simp [hfa] at h
    | some y =>
      cases ht : t.mapM f with
      | none => simp [hfa, ht] at h
      | some ys =>
        simp [hfa, ht] at h
        subst h
        have ih := mapM_getElem? f t ys ht
        refine ⟨by simp [ih.1], ?_⟩
        intro i x hx
        cases i with
        | zero => simp at hx; subst hx; exact ⟨y, hfa, by simp⟩
        | succ j => simpa using ih.2 j x (by simpa using hx)

-- §2 data_cut expressions -----------------------------------------------------------------------------------

theorem getElem?_getD_of_lt (l : List Int) (i : Nat) (h : i < l.length) : l[i]? = some (l.getD i 0) := by
  simp [List.getD_eq_getElem?_getD, List.getElem?_eq_getElem h]

theorem AExp.evalArr_spec (n : Nat) (cols : String → List Int) : (a : AExp) → (∀ v ∈ a.vars, (cols v).length = n) →
    (a.evalArr n cols).length = n ∧
    ∀ i, i < n → (a.evalArr n cols)[i]? = some (a.evalAt fun v => (cols v).getD i 0)
  | .var v, h => by
    have hl := h v (by simp [AExp.vars])
    exact ⟨hl, fun i hi => getElem?_getD_of_lt _ i (hl ▸ hi)⟩
  | .const c, _ => by
    refine ⟨by simp [AExp.evalArr], fun i hi => ?_⟩
    simp [AExp.evalArr, AExp.evalAt, hi]
  | .add a b, h => by
    have ha := AExp.evalArr_spec n cols a (fun v hv => h v (by simp [AExp.vars, hv]))
    have hb := AExp.evalArr_spec n cols b (fun v hv => h v (by simp [AExp.vars, hv]))
    refine ⟨by simp [AExp.evalArr, ha.1, hb.1], fun i hi => ?_⟩
    simp [AExp.evalArr, AExp.evalAt, List.getElem?_zipWith, ha.2 i hi, hb.2 i hi]
  | .sub a b, h => by
    have ha := AExp.evalArr_spec n cols a (fun v hv => h v (by simp [AExp.vars, hv]))
    have hb := AExp.evalArr_spec n cols b (fun v hv => h v (by simp [AExp.vars, hv]))
    refine ⟨by simp [AExp.evalArr, ha.1, hb.1], fun i hi => ?_⟩
    simp [AExp.evalArr, AExp.evalAt, List.getElem?_zipWith, ha.2 i hi, hb.2 i hi]
  | .mul a b, h => by
    have ha := AExp.evalArr_spec n cols a (fun v hv => h v (by simp [AExp.vars, hv]))
    have hb := AExp.evalArr_spec n cols b (fun v hv => h v (by simp [AExp.vars, hv]))
    refine ⟨by simp [AExp.evalArr, ha.1, hb.1], fun i hi => ?_⟩
    simp [AExp.evalArr, AExp.evalAt, List.getElem?_zipWith, ha.2 i hi, hb.2 i hi]
  | .neg a, h => by
    have ha := AExp.evalArr_spec n cols a (fun v hv => h v (by simp [AExp.vars, hv]))
    refine ⟨by simp [AExp.evalArr, ha.1], fun i hi => ?_⟩
    simp [AExp.evalArr, AExp.evalAt, ha.2 i hi]

theorem BExp.evalArr_spec (n : Nat) (cols : String → List Int) : (e : BExp) → (∀ v ∈ e.vars, (cols v).length = n) →
    (e.evalArr n cols).length = n ∧
    ∀ i, i < n → (e.evalArr n cols)[i]? = some (e.evalAt fun v => (cols v).getD i 0)
  | .cmp op a b, h => by
    have ha := AExp.evalArr_spec n cols a (fun v hv => h v (by simp [BExp.vars, hv]))
    have hb := AExp.evalArr_spec n cols b (fun v hv => h v (by simp [BExp.vars, hv]))
    refine ⟨by simp [BExp.evalArr, ha.1, hb.1], fun i hi => ?_⟩
    simp [BExp.evalArr, BExp.evalAt, List.getElem?_zipWith, ha.2 i hi, hb.2 i hi]
  | .and p q, h => by
    have hp := BExp.evalArr_spec n cols p (fun v hv => h v (by simp [BExp.vars, hv]))
    have hq := BExp.evalArr_spec n cols q (fun v hv => h v (by simp [BExp.vars, hv]))
    refine ⟨by simp [BExp.evalArr, hp.1, hq.1], fun i hi => ?_⟩
    simp [BExp.evalArr, BExp.evalAt, List.getElem?_zipWith, hp.2 i hi, hq.2 i hi]
  | .or p q, h => by
    have hp := BExp.evalArr_spec n cols p (fun v hv => h v (by simp [BExp.vars, hv]))
    have hq := BExp.evalArr_spec n cols q (fun v hv => h v (by simp [BExp.vars, hv]))
    refine ⟨by simp [BExp.evalArr, hp.1, hq.1], fun i hi => ?_⟩
    simp [BExp.evalArr, BExp.evalAt, List.getElem?_zipWith, hp.2 i hi, hq.2 i hi]
  | .not p, h => by
    have hp := BExp.evalArr_spec n cols p (fun v hv => h v (by simp [BExp.vars, hv]))
    refine ⟨by simp [BExp.evalArr, hp.1], fun i hi => ?_⟩
    simp [BExp.evalArr, BExp.evalAt, hp.2 i hi]

/-- the array-wise value only reads the arrays of the variables that occur -/
theorem AExp.evalArr_congr (n : Nat) (c1 c2 : String → List Int) : (a : AExp) → (∀ v ∈ a.vars, c1 v = c2 v) →
    a.evalArr n c1 = a.evalArr n c2
  | .var v, h => h v (by simp [AExp.vars])
  | .const c, _ => rfl
  | .add a b, h => by
    simp only [AExp.evalArr]
    rw [AExp.evalArr_congr n c1 c2 a (fun v hv => h v (by simp [AExp.vars, hv])),
      AExp.evalArr_congr n c1 c2 b (fun v hv => h v (by simp [AExp.vars, hv]))]
  | .sub a b, h => by
    simp only [AExp.evalArr]
    rw [AExp.evalArr_congr n c1 c2 a (fun v hv => h v (by simp [AExp.vars, hv])),
      AExp.evalArr_congr n c1 c2 b (fun v hv => h v (by simp [AExp.vars, hv]))]
  | .mul a b, h => by
    simp only [AExp.evalArr]
    rw [AExp.evalArr_congr n c1 c2 a (fun v hv => h v (by simp [AExp.vars, hv])),
      AExp.evalArr_congr n c1 c2 b (fun v hv => h v (by simp [AExp.vars, hv]))]
  | .neg a, h => by
    simp only [AExp.evalArr]
    rw [AExp.evalArr_congr n c1 c2 a (fun v hv => h v (by simp [AExp.vars, hv]))]

theorem BExp.evalArr_congr (n : Nat) (c1 c2 : String → List Int) : (e : BExp) → (∀ v ∈ e.vars, c1 v = c2 v) →
    e.evalArr n c1 = e.evalArr n c2
  | .cmp op a b, h => by
    simp only [BExp.evalArr]
    rw [AExp.evalArr_congr n c1 c2 a (fun v hv => h v (by simp [BExp.vars, hv])),
      AExp.evalArr_congr n c1 c2 b (fun v hv => h v (by simp [BExp.vars, hv]))]
  | .and p q, h => by
    simp only [BExp.evalArr]
    rw [BExp.evalArr_congr n c1 c2 p (fun v hv => h v (by simp [BExp.vars, hv])),
      BExp.evalArr_congr n c1 c2 q (fun v hv => h v (by simp [BExp.vars, hv]))]
  | .or p q, h => by
    simp only [BExp.evalArr]
    rw [BExp.evalArr_congr n c1 c2 p (fun v hv => h v (by simp [BExp.vars, hv])),
      BExp.evalArr_congr n c1 c2 q (fun v hv => h v (by simp [BExp.vars, hv]))]
  | .not p, h => by
    simp only [BExp.evalArr]
    rw [BExp.evalArr_congr n c1 c2 p (fun v hv => h v (by simp [BExp.vars, hv]))]

theorem lookupP_map_self (cols : String → List Int) (v : String) : (vs : List String) → v ∈ vs →
    lookupP v (vs.map fun v => (v, cols v)) = some (cols v)
  | [], h => by simp at h
  | a :: rest, h => by
    simp only [List.map_cons, lookupP]
    by_cases ha : a = v
    · subst ha; simp
    · simp only [ha, if_false]
      rcases List.mem_cons.mp h with h | h
      · exact absurd h.symm ha
      · exact lookupP_map_self cols v rest h

theorem mapM_columns (val : α → Int) (vm : String → List Key) (d : D α) (cols : String → List Int) :
    (vs : List String) → (∀ v ∈ vs, column val d (vm v) = some (cols v)) →
    vs.mapM (fun v => (column val d (vm v)).map fun c => (v, c)) = some (vs.map fun v => (v, cols v))
  | [], _ => rfl
  | v :: rest, h => by
    rw [List.mapM_cons, h v (by simp), mapM_columns val vm d cols rest (fun v' hv' => h v' (List.mem_cons_of_mem _ hv'))]
    rfl

mutual
theorem mapLeaves_congr_uniform (f g : List α → List β) (n : Nat) (hf : ∀ r : List α, r.length = n → f r = g r) :
    (d : D α) → uniform n d = true → mapLeaves f d = mapLeaves g d
  | .leaf r, h => by
    simp only [uniform, beq_iff_eq] at h
    simp [mapLeaves, hf r h]
  | .node k ch, h => by
    simp only [uniform] at h
    simp [mapLeaves, mapLeavesCh_congr_uniform f g n hf ch h]
theorem mapLeavesCh_congr_uniform (f g : List α → List β) (n : Nat) (hf : ∀ r : List α, r.length = n → f r = g r) :
    (ch : List (String × D α)) → uniformCh n ch = true → mapLeavesCh f ch = mapLeavesCh g ch
  | [], _ => by simp [mapLeavesCh]
  | (k, v) :: rest, h => by
    simp only [uniformCh, Bool.and_eq_true] at h
    simp [mapLeavesCh, mapLeaves_congr_uniform f g n hf v h.1, mapLeavesCh_congr_uniform f g n hf rest h.2]
end

theorem filterMap_congr_mem {δ ε : Type} (f g : δ → Option ε) : (l : List δ) → (∀ x ∈ l, f x = g x) →
    l.filterMap f = l.filterMap g
  | [], _ => rfl
  | x :: rest, h => by
    simp only [List.filterMap_cons, h x (by simp),
      filterMap_congr_mem f g rest (fun y hy => h y (List.mem_cons_of_mem _ hy))]

-- §3 heap ------------------------------------------------------------------------------------------------------

/-- every object owns its own `extra` dict: addresses are valid and pairwise different -/
def WFH (h : Heap) : Prop :=
  (∀ (o : Nat) (ob : LObj), h.objs[o]? = some ob → ob.extra < h.dicts.length) ∧
  (∀ (o o' : Nat) (ob ob' : LObj), h.objs[o]? = some ob → h.objs[o']? = some ob' → ob.extra = ob'.extra → o = o')

theorem getElem?_append_single {δ : Type} (l : List δ) (x : δ) (i : Nat) (y : δ) (h : (l ++ [x])[i]? = some y) :
    (i < l.length ∧ l[i]? = some y) ∨ (i = l.length ∧ y = x) := by
  by_cases hi : i < l.length
  · left; exact ⟨hi, by simpa [List.getElem?_append_left hi] using h⟩
  · right
    have hi' : l.length ≤ i := Nat.le_of_not_lt hi
    rw [List.getElem?_append_right hi'] at h
    have : i - l.length = 0 := by
      cases hk : i - l.length with
      | zero => rfl
      | succ k => simp [hk] at h
    refine ⟨by omega, ?_⟩
    simp [this] at h
    exact h.symm

theorem wfh_alloc (h : Heap) (hw : WFH h) (x : Nat) (d : List (String × Nat)) :
    WFH ⟨h.dicts ++ [d], h.objs ++ [⟨x, h.dicts.length⟩]⟩ := by
  unfold WFH
  refine ⟨?_, ?_⟩
  · intro o ob ho
    rcases getElem?_append_single _ _ _ _ ho with ⟨_, h1⟩ | ⟨_, h2⟩
    · have := hw.1 o ob h1; simp; omega
    · subst h2; simp
  · intro o o' ob ob' ho ho' he
    rcases getElem?_append_single _ _ _ _ ho with ⟨_, h1⟩ | ⟨e1, h2⟩ <;>
    rcases getElem?_append_single _ _ _ _ ho' with ⟨_, h1'⟩ | ⟨e1', h2'⟩
    · exact hw.2 o o' ob ob' h1 h1' he
    · subst h2'; have := hw.1 o ob h1; simp at he; omega
    · subst h2; have := hw.1 o' ob' h1'; simp at he; omega
    · omega

theorem wfh_step (h : Heap) (hw : WFH h) (op : Op) : WFH (step h op) := by
  cases op with
  | new x => exact wfh_alloc h hw x []
  | set o k v =>
    simp only [step]
    cases ho : h.objs[o]? with
    | none => exact hw
    | some ob =>
      refine ⟨fun o1 ob1 h1 => ?_, hw.2⟩
      simp only [setAt, List.length_modify]
      exact hw.1 o1 ob1 h1
  | copy o =>
    simp only [step]
    cases ho : h.objs[o]? with
    | none => exact hw
    | some ob => exact wfh_alloc h hw ob.x _
  | replace o k v =>
    simp only [step]
    cases ho : h.objs[o]? with
    | none => exact hw
    | some ob => exact wfh_alloc h hw ob.x _

theorem wfh_run (ops : List Op) : (h : Heap) → WFH h → WFH (run h ops) := by
  induction ops with
  | nil => intro h hw; exact hw
  | cons op rest ih => intro h hw; exact ih (step h op) (wfh_step h hw op)

theorem wfh_empty : WFH Heap.empty := by
  unfold WFH
  refine ⟨?_, ?_⟩ <;> intro o <;> simp [Heap.empty]

theorem lookupP_map_set_ne (k k' : String) (v : β) (hk : k' ≠ k) : (kv : List (String × β)) →
    lookupP k' (kv.map fun p => if p.1 == k then (p.1, v) else p) = lookupP k' kv
  | [] => rfl
  | p :: rest => by
    have ih := lookupP_map_set_ne k k' v hk rest
    simp only [beq_iff_eq] at ih
    have hk2 : ¬ k = k' := fun h => hk h.symm
    by_cases hp : p.1 = k
    · simp [lookupP, hp, hk2, ih]
    · simp [lookupP, hp, ih]

theorem lookupP_map_set_eq (k : String) (v : β) : (kv : List (String × β)) → kv.any (fun p => p.1 == k) = true →
    lookupP k (kv.map fun p => if p.1 == k then (p.1, v) else p) = some v
  | [], h => by simp at h
  | p :: rest, h => by
    by_cases hp : p.1 = k
    · simp [lookupP, hp]
    · have hr : rest.any (fun p => p.1 == k) = true := by
        simp only [List.any_cons, Bool.or_eq_true, beq_iff_eq] at h
        rcases h with h | h
        · exact absurd h hp
        · exact h
      have ih := lookupP_map_set_eq k v rest hr
      simp only [beq_iff_eq] at ih
      simp [lookupP, hp, ih]

theorem lookupP_append_single (k k' : String) (v : β) : (kv : List (String × β)) →
    lookupP k' (kv ++ [(k, v)]) = match lookupP k' kv with
      | some x => some x
      | none => if k' = k then some v else none
  | [] => by
    by_cases hk : k = k'
    · subst hk; simp [lookupP]
    · have : ¬ k' = k := fun h => hk h.symm
      simp [lookupP, hk, this]
  | p :: rest => by
    have ih := lookupP_append_single k k' v rest
    by_cases hp : p.1 = k'
    · simp [lookupP, hp]
    · simp [lookupP, hp, ih]

theorem lookupP_none_of_not_any (k : String) : (kv : List (String × β)) → kv.any (fun p => p.1 == k) = false →
    lookupP k kv = none
  | [], _ => rfl
  | p :: rest, h => by
    simp only [List.any_cons, Bool.or_eq_false_iff, beq_eq_false_iff_ne] at h
    simp [lookupP, h.1, lookupP_none_of_not_any k rest h.2]

theorem lookupP_setKV (kv : List (String × β)) (k k' : String) (v : β) :
    lookupP k' (setKV kv k v) = if k' = k then some v else lookupP k' kv := by
  unfold setKV
  split
  · rename_i hany
    by_cases hk : k' = k
    · subst hk; rw [lookupP_map_set_eq _ v kv hany]; simp
    · rw [lookupP_map_set_ne k k' v hk kv]; simp [hk]
  · rename_i hany
    have hany' : kv.any (fun p => p.1 == k) = false := Bool.eq_false_iff.mpr hany
    rw [lookupP_append_single]
    by_cases hk : k' = k
    · subst hk; simp [lookupP_none_of_not_any _ kv hany']
    · simp only [hk, if_false]
      cases lookupP k' kv <;> rfl

end TfPwaV.DataY
