import TfPwaV.Proofs.TopologyTableRT
/-! C14, all n: renaming the particles of a chain (what `standard_topology` does with its `particle_map`) by a map
that is injective on the vertices of the tree and fixes the final particles keeps `topology_id`. -/
set_option linter.unusedSectionVars false
namespace TfPwaV.Topology

section
variable {α : Type}

def NT.mapN (f : α → α) : NT α → NT α
  | .leaf a => .leaf (f a)
  | .node a l r => .node (f a) (l.mapN f) (r.mapN f)

theorem NT.mapN_name (f : α → α) (t : NT α) : (t.mapN f).name = f t.name := by cases t <;> rfl

theorem NT.mapN_leaves (f : α → α) (t : NT α) : (t.mapN f).leaves = t.leaves.map f := by
  induction t with
  | leaf a => rfl
  | node a l r ihl ihr => simp only [NT.mapN, NT.leaves, ihl, ihr, List.map_append]

theorem NT.mapN_subs (f : α → α) (t : NT α) : (t.mapN f).subs = t.subs.map (NT.mapN f) := by
  induction t with
  | leaf a => rfl
  | node a l r ihl ihr => simp only [NT.mapN, NT.subs, ihl, ihr, List.map_cons, List.map_append]

theorem NT.mapN_verts (f : α → α) (t : NT α) : (t.mapN f).verts = t.verts.map f := by
  simp only [NT.verts, NT.mapN_subs, List.map_map]
  apply List.map_congr_left
  intro s _
  exact NT.mapN_name f s

/-- `BaseDecay(particle_map[core], [particle_map[j] for j in outs])` -/
def Decay.rename (f : α → α) (d : Decay α) : Decay α := ⟨f d.core, d.outs.map f⟩

end

section
variable {α : Type} [DecidableEq α] [LT α] [DecidableLT α]

theorem Rep.rename {c : Chain α} {N : NT α} (hc : Rep c N) (f : α → α)
    (hinj : ∀ x ∈ N.verts, ∀ y ∈ N.verts, f x = f y → x = y) :
    Rep (c.map (Decay.rename f)) (N.mapN f) ∧ (N.verts.Nodup → (N.mapN f).verts.Nodup) := by
  have hcv : ∀ x ∈ coreList c, x ∈ N.verts := by
    intro x hx
    obtain ⟨l, r, h⟩ := (hc.mem_cores x).1 hx
    exact NT.mem_verts_of_sub h
  have ecore : coreList (c.map (Decay.rename f)) = (coreList c).map f := by
    simp [coreList, Decay.rename, Function.comp_def]
  refine ⟨⟨?_, ?_, ?_⟩, ?_⟩
  · rw [ecore]
    apply nodup_map_of_inj_on _ _ hc.cores
    intro x hx y hy hxy
    exact hinj x (hcv x hx) y (hcv y hy) hxy
  · intro d' hd'
    obtain ⟨d, hd, rfl⟩ := List.mem_map.1 hd'
    obtain ⟨l, r, hn, hp⟩ := hc.sound d hd
    refine ⟨l.mapN f, r.mapN f, ?_, ?_⟩
    · rw [NT.mapN_subs]
      exact List.mem_map.2 ⟨_, hn, rfl⟩
    · simp only [Decay.rename, NT.mapN_name]
      exact hp.map f
  · intro a' l' r' hn'
    rw [NT.mapN_subs] at hn'
    obtain ⟨s, hs, hse⟩ := List.mem_map.1 hn'
    cases s with
    | leaf b => simp [NT.mapN] at hse
    | node a0 l0 r0 =>
      simp only [NT.mapN, NT.node.injEq] at hse
      rw [ecore, ← hse.1]
      exact List.mem_map.2 ⟨a0, hc.complete a0 l0 r0 hs, rfl⟩
  · intro hv
    rw [NT.mapN_verts]
    exact nodup_map_of_inj_on _ _ hv hinj

/-- `topology_id` of any chain that consists of the decays of a named tree -/
theorem Rep.topologyId {κ : Type} [DecidableEq κ] [LT κ] [DecidableLT κ] (hα : LinLt α) (hκ : LinLt κ)
    (key : α → κ) {c : Chain α} {a : α} {l r : NT α} (hc : Rep c (NT.node a l r))
    (hv : (NT.node a l r).verts.Nodup) :
    Topology.topologyId key c = some (isort ((NT.node a l r).subs.map fun s => (isort s.leaves).map key)) := by
  obtain ⟨t, ht, _, hp⟩ := sortedTable_rep hα hc hv
  simp only [Topology.topologyId, groupings, ht, Option.map_some, Option.some.injEq]
  rw [isort_eq_iff_perm hκ.list]
  refine (hp.map _).trans ?_
  simp only [List.map_map, Function.comp_def]
  exact List.Perm.refl _

/-- ★ renaming by a map that is injective on the vertices and fixes the finals keeps `topology_id` (any key) -/
theorem Rep.rename_topologyId {κ : Type} [DecidableEq κ] [LT κ] [DecidableLT κ] (hα : LinLt α) (hκ : LinLt κ)
    (key : α → κ) {c : Chain α} {a : α} {l r : NT α} (hc : Rep c (NT.node a l r))
    (hv : (NT.node a l r).verts.Nodup) (f : α → α)
    (hinj : ∀ x ∈ (NT.node a l r).verts, ∀ y ∈ (NT.node a l r).verts, f x = f y → x = y)
    (hfix : ∀ z ∈ (NT.node a l r).leaves, f z = z) :
    Topology.topologyId key (c.map (Decay.rename f)) = Topology.topologyId key c
      ∧ (Topology.topologyId key c).isSome := by
  obtain ⟨hrep', hv'⟩ := hc.rename f hinj
  have h1 := Rep.topologyId hα hκ key hc hv
  have h2 := Rep.topologyId hα hκ key (a := f a) (l := l.mapN f) (r := r.mapN f) hrep' (hv' hv)
  refine ⟨?_, by rw [h1]; rfl⟩
  rw [h1, h2]
  congr 2
  have e : (NT.node (f a) (l.mapN f) (r.mapN f)).subs = ((NT.node a l r).subs).map (NT.mapN f) :=
    NT.mapN_subs f (NT.node a l r)
  rw [e, List.map_map]
  apply List.map_congr_left
  intro s hs
  simp only [Function.comp_def, NT.mapN_leaves]
  have : s.leaves.map f = s.leaves := by
    have h := List.map_congr_left (f := f) (g := id) (l := s.leaves)
      (fun z hz => hfix z (NT.sub_leaves hs z hz))
    simpa using h
  rw [this]

end

end TfPwaV.Topology
