import TfPwaV.Proofs.PolarBound
import TfPwaV.Proofs.Fit
/-! Real-number part of C08: the value `set_trans_var` stores for a bounded parameter lies inside its bounds. -/
open TfPwaV.ScalarR TfPwaV.Vars

namespace TfPwaV.Fit

/-- `Bound(lo, hi).get_x2y` maps every real `x` into `[lo, hi]` (either side may be missing) -/
theorem x2y_inside (lo hi : Option ℝ) (h : ∀ a b, lo = some a → hi = some b → a ≤ b) (x : ℝ) :
    (∀ a, lo = some a → a ≤ BoundR.x2y lo hi x) ∧ (∀ b, hi = some b → BoundR.x2y lo hi x ≤ b) := by
  cases lo with
  | none =>
    cases hi with
    | none => exact ⟨fun a ha => by simp at ha, fun b hb => by simp at hb⟩
    | some b =>
      refine ⟨fun a ha => by simp at ha, fun b' hb => ?_⟩
      simp only [Option.some.injEq] at hb; subst hb
      exact BoundR.x2y_range_B b x
  | some a =>
    cases hi with
    | none =>
      refine ⟨fun a' ha => ?_, fun b hb => by simp at hb⟩
      simp only [Option.some.injEq] at ha; subst ha
      exact BoundR.x2y_range_A a x
    | some b =>
      have hab := h a b rfl rfl
      refine ⟨fun a' ha => ?_, fun b' hb => ?_⟩
      · simp only [Option.some.injEq] at ha; subst ha
        exact (BoundR.x2y_range_AB a b x hab).1
      · simp only [Option.some.injEq] at hb; subst hb
        exact (BoundR.x2y_range_AB a b x hab).2

/-- for every arithmetic on ℝ whose bound transform is the library's: the value stored for a bounded free parameter
(`yOf`) is inside the registered bounds -/
theorem yOf_inside (A : Arith ℝ) (hA : A.x2y = BoundR.x2y) (bnd : Dict (Option ℝ × Option ℝ)) (n : Name) (lo hi : Option ℝ)
    (hb : dget bnd n = some (lo, hi)) (h : ∀ a b, lo = some a → hi = some b → a ≤ b) (x : ℝ) :
    (∀ a, lo = some a → a ≤ yOf A bnd n x) ∧ (∀ b, hi = some b → yOf A bnd n x ≤ b) := by
  unfold yOf
  rw [hb, hA]
  exact x2y_inside lo hi h x

end TfPwaV.Fit
