import TfPwaV.Gen.PhspR
import TfPwaV.Proofs.Kin
import Mathlib.Tactic.Linarith
import Mathlib.Tactic.NormNum
/-! Helper lemmas for C10: real-number facts about `get_p` and the list recursions of `PhaseSpaceGenerator`. -/
open TfPwaV.ScalarR
namespace TfPwaV.PhspR

theorem clamp0_of_nonneg {x : ℝ} (h : 0 ≤ x) : clamp0 x = x := by
  unfold clamp0
  split
  · linarith
  · rfl

theorem clamp0_nonneg (x : ℝ) : 0 ≤ clamp0 x := by
  unfold clamp0
  split
  · exact le_refl 0
  · linarith

theorem getPpy_id (M a b : ℝ) : getPpy id M a b = getP M a b := rfl
theorem getPm_id (M a b : ℝ) : getPm id M a b = getP M a b := rfl

theorem getP_nonneg (M a b : ℝ) (hM : 0 ≤ M) : 0 ≤ getP M a b := by
  unfold getP ksqrt
  apply div_nonneg (Real.sqrt_nonneg _)
  linarith

theorem p2Of_nonneg {M a b : ℝ} (ha : 0 ≤ a) (hb : 0 ≤ b) (h : a + b ≤ M) : 0 ≤ p2Of M a b := by
  unfold p2Of
  apply mul_nonneg
  · nlinarith
  · nlinarith

/-- squared break-up momentum -/
noncomputable def g2 (M a b : ℝ) : ℝ := p2Of M a b / (4 * (M * M))

theorem getP_eq_sqrt_g2 {M a b : ℝ} (hM : 0 < M) (ha : 0 ≤ a) (hb : 0 ≤ b) (h : a + b ≤ M) :
    getP M a b = Real.sqrt (g2 M a b) := by
  unfold getP g2 ksqrt
  rw [clamp0_of_nonneg (p2Of_nonneg ha hb h)]
  rw [Real.sqrt_div' _ (by positivity)]
  congr 1
  rw [show 4 * (M * M) = (2 * M) * (2 * M) by ring]
  rw [Real.sqrt_mul_self (by linarith)]

/-- `q² = p2 / (4 M²)` on the physical region -/
theorem getP_sq {M a b : ℝ} (hM : 0 < M) (ha : 0 ≤ a) (hb : 0 ≤ b) (h : a + b ≤ M) :
    getP M a b * getP M a b = g2 M a b := by
  rw [getP_eq_sqrt_g2 hM ha hb h]
  apply Real.mul_self_sqrt
  unfold g2
  apply div_nonneg (p2Of_nonneg ha hb h)
  positivity

theorem g2_mono_M {M1 M2 a b : ℝ} (hM : 0 < M1) (ha : 0 ≤ a) (hb : 0 ≤ b) (h : a + b ≤ M1) (h12 : M1 ≤ M2) :
    g2 M1 a b ≤ g2 M2 a b := by
  unfold g2
  have hM2 : 0 < M2 := by linarith
  rw [div_le_div_iff₀ (by positivity) (by positivity)]
  unfold p2Of
  -- x1 = M1², x2 = M2², s = (a+b)², d = (a-b)²:  (x2-s)(x2-d) x1 - (x1-s)(x1-d) x2 = (x2-x1)(x1 x2 - s d)
  have hx : M1 * M1 ≤ M2 * M2 := by nlinarith
  have hs : (a + b) * (a + b) ≤ M1 * M1 := by nlinarith
  have hd : (a - b) * (a - b) ≤ (a + b) * (a + b) := by nlinarith
  have hd0 : 0 ≤ (a - b) * (a - b) := mul_self_nonneg _
  have hs0 : 0 ≤ (a + b) * (a + b) := mul_self_nonneg _
  have key : 0 ≤ (M2 * M2 - M1 * M1) * (M1 * M1 * (M2 * M2) - (a + b) * (a + b) * ((a - b) * (a - b))) := by
    apply mul_nonneg (by linarith)
    have h1 : (a + b) * (a + b) * ((a - b) * (a - b)) ≤ (a + b) * (a + b) * ((a + b) * (a + b)) :=
      mul_le_mul_of_nonneg_left hd hs0
    have h2 : (a + b) * (a + b) * ((a + b) * (a + b)) ≤ M1 * M1 * (M2 * M2) :=
      mul_le_mul hs (by linarith) hs0 (by positivity)
    linarith
  nlinarith [key]

theorem g2_anti_a {M a1 a2 b : ℝ} (hM : 0 < M) (ha : 0 ≤ a1) (h12 : a1 ≤ a2) (hb : 0 ≤ b) (h : a2 + b ≤ M) :
    g2 M a2 b ≤ g2 M a1 b := by
  unfold g2
  apply div_le_div_of_nonneg_right _ (by positivity)
  unfold p2Of
  -- p2(A) = x² - 2x(A+B) + (A-B)², A = a²: p2(A1) - p2(A2) = (A2 - A1)(2x - A1 - A2 + 2B)
  have hA : a1 * a1 ≤ a2 * a2 := by nlinarith
  have hx : a2 * a2 ≤ M * M := by nlinarith
  have key : 0 ≤ (a2 * a2 - a1 * a1) * (2 * (M * M) - a1 * a1 - a2 * a2 + 2 * (b * b)) := by
    apply mul_nonneg (by linarith)
    nlinarith [mul_self_nonneg b]
  nlinarith [key]

/-- `get_p` is increasing in the parent mass above threshold -/
theorem getP_mono_M {M1 M2 a b : ℝ} (ha : 0 ≤ a) (hb : 0 ≤ b) (h : a + b ≤ M1) (h12 : M1 ≤ M2) :
    getP M1 a b ≤ getP M2 a b := by
  rcases eq_or_lt_of_le (show 0 ≤ M1 by linarith) with h0 | hM
  · rw [← h0]
    have : getP 0 a b = 0 := by unfold getP; simp
    rw [this]
    exact getP_nonneg _ _ _ (by linarith)
  · rw [getP_eq_sqrt_g2 hM ha hb h, getP_eq_sqrt_g2 (by linarith) ha hb (by linarith)]
    exact Real.sqrt_le_sqrt (g2_mono_M hM ha hb h h12)

/-- `get_p` is decreasing in a daughter mass -/
theorem getP_anti_a {M a1 a2 b : ℝ} (ha : 0 ≤ a1) (h12 : a1 ≤ a2) (hb : 0 ≤ b) (h : a2 + b ≤ M) :
    getP M a2 b ≤ getP M a1 b := by
  rcases eq_or_lt_of_le (show 0 ≤ M by linarith) with h0 | hM
  · rw [← h0]
    have : ∀ a, getP 0 a b = 0 := by intro a; unfold getP; simp
    rw [this, this]
  · rw [getP_eq_sqrt_g2 hM (by linarith) hb h, getP_eq_sqrt_g2 hM ha hb (by linarith)]
    exact Real.sqrt_le_sqrt (g2_anti_a hM ha h12 hb h)

/-- strictly above threshold the break-up momentum is positive -/
theorem getP_pos {M a b : ℝ} (ha : 0 ≤ a) (hb : 0 ≤ b) (h : a + b < M) : 0 < getP M a b := by
  have hM : 0 < M := by linarith
  unfold getP ksqrt
  apply div_pos _ (by linarith)
  apply Real.sqrt_pos.mpr
  have : 0 < p2Of M a b := by
    unfold p2Of
    apply mul_pos
    · nlinarith
    · nlinarith
  rw [clamp0_of_nonneg this.le]
  exact this

/-- massless second daughter: `q = |M² - a²| / 2M` (no clamp, also below `M = a`) -/
theorem getP_massless (M a : ℝ) : getP M a 0 = |M * M - a * a| / (2 * M) := by
  unfold getP p2Of ksqrt
  have h : (M * M - (a + 0) * (a + 0)) * (M * M - (a - 0) * (a - 0)) = (M * M - a * a) * (M * M - a * a) := by ring
  rw [h, clamp0_of_nonneg (mul_self_nonneg _), Real.sqrt_mul_self_eq_abs]

/-! ### list recursions -/

theorem foldl_mul_eq (l : List ℝ) (a : ℝ) : l.foldl (· * ·) a = a * l.foldl (· * ·) 1 := by
  induction l generalizing a with
  | nil => simp
  | cons x t ih =>
    simp only [List.foldl_cons]
    rw [ih (a * x), ih (1 * x)]
    ring

theorem prodL_cons (x : ℝ) (l : List ℝ) : prodL (x :: l) = x * prodL l := by
  unfold prodL
  simp only [List.foldl_cons]
  rw [foldl_mul_eq l (1 * x)]
  ring

theorem prodL_nil : prodL ([] : List ℝ) = 1 := rfl

theorem foldl_add_eq (l : List ℝ) (a : ℝ) : l.foldl (· + ·) a = a + l.sum := by
  induction l generalizing a with
  | nil => simp
  | cons x t ih =>
    simp only [List.foldl_cons, List.sum_cons]
    rw [ih (a + x)]
    ring

theorem foldl_sub_eq (l : List ℝ) (a : ℝ) : l.foldl (· - ·) a = a - l.sum := by
  induction l generalizing a with
  | nil => simp
  | cons x t ih =>
    simp only [List.foldl_cons, List.sum_cons]
    rw [ih (a - x)]
    ring

theorem sumMass_eq (mass : List ℝ) : sumMass mass = mass.sum := by
  unfold sumMass; rw [foldl_add_eq]; ring

theorem teCm_eq (m0 : ℝ) (mass : List ℝ) : teCm m0 mass = m0 - mass.sum := by
  unfold teCm; rw [foldl_sub_eq]

theorem wtMaxAux_cons2 (r32 : ℝ → ℝ) (rp rn : ℝ) (rest : List ℝ) (emmax emmin w : ℝ) :
    wtMaxAux r32 (rp :: rn :: rest) emmax emmin w =
      wtMaxAux r32 (rn :: rest) (emmax + rn) (emmin + rp) (w * getPpy r32 (emmax + rn) (emmin + rp) rn) := by
  simp [wtMaxAux]

theorem wtMaxAux_single (r32 : ℝ → ℝ) (rp : ℝ) (emmax emmin w : ℝ) :
    wtMaxAux r32 [rp] emmax emmin w = w := by
  simp [wtMaxAux]

theorem wtMaxAux_eq (r32 : ℝ → ℝ) (l : List ℝ) : ∀ (rp emmax emmin w : ℝ),
    wtMaxAux r32 (rp :: l) emmax emmin w = w * wtMaxAux r32 (rp :: l) emmax emmin 1 := by
  induction l with
  | nil => intro rp emmax emmin w; simp [wtMaxAux_single]
  | cons rn rest ih =>
    intro rp emmax emmin w
    rw [wtMaxAux_cons2, wtMaxAux_cons2, ih, ih rn _ _ (1 * _)]
    ring

/-- the set of mass points `generate_mass` can produce (all uniform numbers in [0,1]):
`M_i + r_{i+1} ≤ M_{i+1} ≤ b_i`, in the code's own variables (`mn` previous mass, `b = m0 - sm`) -/
def InDomainAux (m0 : ℝ) : List ℝ → List ℝ → ℝ → ℝ → Prop
  | r1 :: r2 :: rest, m :: ms, mn, sm =>
      mn + r1 ≤ m ∧ m ≤ m0 - sm ∧ InDomainAux m0 (r2 :: rest) ms m (sm - r2)
  | [_], [], _, _ => True
  | _, _, _, _ => False

def InDomain (m0 : ℝ) (mass ms : List ℝ) : Prop :=
  InDomainAux m0 (mass.reverse.drop 1) ms (mass.reverse.headD 0) (sm0 mass)

/-- core of `weight ≤ 1`: along the chain every break-up momentum is below the corresponding factor of `wtMax` -/
theorem prod_le_wtMaxAux (m0 : ℝ) (rest : List ℝ) : ∀ (rp rk mp : ℝ) (py : Bool) (ms : List ℝ) (emmax emmin sm : ℝ),
    0 ≤ rp → 0 ≤ rk → (∀ x ∈ rest, 0 ≤ x) → 0 ≤ emmin → emmin + rp ≤ mp →
    m0 - sm = emmax + rk → sm = rest.sum → mp + rk ≤ m0 - sm →
    InDomainAux m0 (rk :: rest) ms mp sm →
    0 ≤ prodL (qListAux id m0 mp py ms (rk :: rest)) ∧
      prodL (qListAux id m0 mp py ms (rk :: rest)) ≤ wtMaxAux id (rp :: rk :: rest) emmax emmin 1 := by
  induction rest with
  | nil =>
    intro rp rk mp py ms emmax emmin sm hrp hrk _ hemin h1 h3 h4 h7 hdom
    cases ms with
    | cons m ms' => simp [InDomainAux] at hdom
    | nil =>
      have hsm : sm = 0 := by simpa using h4
      subst hsm
      have hq : qListAux id m0 mp py [] [rk] = [getP m0 mp rk] := by
        cases py <;> simp [qListAux, getPpy_id, getPm_id]
      rw [hq, prodL_cons, prodL_nil, wtMaxAux_cons2, wtMaxAux_single, getPpy_id]
      have hm0 : m0 = emmax + rk := by linarith
      have hmp : 0 ≤ mp := by linarith
      refine ⟨by have := getP_nonneg m0 mp rk (by linarith); linarith, ?_⟩
      rw [← hm0]
      have := getP_anti_a (M := m0) (a1 := emmin + rp) (a2 := mp) (b := rk) (by linarith) h1 hrk (by linarith)
      linarith
  | cons r2 rest' ih =>
    intro rp rk mp py ms emmax emmin sm hrp hrk hrest hemin h1 h3 h4 h7 hdom
    cases ms with
    | nil => simp [InDomainAux] at hdom
    | cons m ms' =>
      simp only [InDomainAux] at hdom
      obtain ⟨hd1, hd2, hd3⟩ := hdom
      have hr2 : 0 ≤ r2 := hrest r2 (by simp)
      have hrest' : ∀ x ∈ rest', 0 ≤ x := fun x hx => hrest x (by simp [hx])
      have hsum : sm - r2 = rest'.sum := by rw [h4]; simp
      have hmp : 0 ≤ mp := by linarith
      obtain ⟨ih0, ih1⟩ := ih rk r2 m false ms' (emmax + rk) (emmin + rp) (sm - r2) hrk hr2 hrest' (by linarith)
        (by linarith) (by linarith) hsum (by linarith) hd3
      have hq : qListAux id m0 mp py (m :: ms') (rk :: r2 :: rest') = getP m mp rk :: qListAux id m0 m false ms' (r2 :: rest') := by
        simp [qListAux]
      rw [hq, prodL_cons, wtMaxAux_cons2, wtMaxAux_eq, getPpy_id]
      have hq0 : 0 ≤ getP m mp rk := getP_nonneg _ _ _ (by linarith)
      have hle1 : getP m mp rk ≤ getP (emmax + rk) mp rk := getP_mono_M hmp hrk hd1 (by linarith)
      have hle2 : getP (emmax + rk) mp rk ≤ getP (emmax + rk) (emmin + rp) rk :=
        getP_anti_a (by linarith) h1 hrk (by linarith)
      refine ⟨mul_nonneg hq0 ih0, ?_⟩
      rw [one_mul]
      exact mul_le_mul (by linarith) ih1 ih0 (by linarith [getP_nonneg (emmax + rk) (emmin + rp) rk (by linarith)])

/-- the importance factor lies in [0,1] on the generated domain -/
theorem importancesAux_range (m0 : ℝ) (rs : List ℝ) : ∀ (ms : List ℝ) (first : Bool) (mn mnmin sm w : ℝ),
    mnmin ≤ mn → InDomainAux m0 rs ms mn sm → 0 ≤ w → w ≤ 1 →
    0 ≤ importancesAux m0 rs ms (massRangeAux m0 rs mnmin sm) first mn sm w ∧
      importancesAux m0 rs ms (massRangeAux m0 rs mnmin sm) first mn sm w ≤ 1 := by
  induction rs with
  | nil => intro ms first mn mnmin sm w _ hdom; simp [InDomainAux] at hdom
  | cons r1 t ih =>
    intro ms first mn mnmin sm w hmn hdom hw0 hw1
    cases t with
    | nil =>
      cases ms with
      | nil => simp [importancesAux, hw0, hw1]
      | cons m ms' => simp [InDomainAux] at hdom
    | cons r2 rest =>
      cases ms with
      | nil => simp [InDomainAux] at hdom
      | cons m ms' =>
        simp only [InDomainAux] at hdom
        obtain ⟨hd1, hd2, hd3⟩ := hdom
        simp only [massRangeAux, importancesAux]
        apply ih ms' false m (mnmin + r1) (sm - r2) _ (by linarith) hd3
        · cases first with
          | true => simpa using hw0
          | false =>
            simp only [Bool.false_eq_true, if_false]
            apply div_nonneg (mul_nonneg hw0 (by linarith)) (by linarith)
        · cases first with
          | true => simpa using hw1
          | false =>
            simp only [Bool.false_eq_true, if_false]
            apply div_le_one_of_le₀ _ (by linarith)
            have : w * (m0 - sm - (mn + r1)) ≤ 1 * (m0 - sm - (mn + r1)) :=
              mul_le_mul_of_nonneg_right hw1 (by linarith)
            linarith

/-- what `generate_mass` returns for uniform numbers in [0,1] lies in the domain -/
theorem generateMassAux_inDomain (m0 : ℝ) (t : List ℝ) : ∀ (r1 : ℝ) (us : List ℝ) (mn sm : ℝ),
    (∀ u ∈ us, 0 ≤ u ∧ u ≤ 1) → us.length = t.length → mn + r1 ≤ m0 - sm →
    InDomainAux m0 (r1 :: t) (generateMassAux m0 (r1 :: t) us mn sm) mn sm := by
  induction t with
  | nil =>
    intro r1 us mn sm _ hlen _
    have : us = [] := by simpa using hlen
    subst this
    simp [generateMassAux, InDomainAux]
  | cons r2 rest ih =>
    intro r1 us mn sm hu hlen hab
    cases us with
    | nil => simp at hlen
    | cons u us' =>
      have hu0 := (hu u (by simp)).1
      have hu1 := (hu u (by simp)).2
      simp only [generateMassAux, InDomainAux]
      have hba : 0 ≤ m0 - sm - (mn + r1) := by linarith
      have h1 : 0 ≤ (m0 - sm - (mn + r1)) * u := mul_nonneg hba hu0
      have h2 : (m0 - sm - (mn + r1)) * u ≤ (m0 - sm - (mn + r1)) * 1 := mul_le_mul_of_nonneg_left hu1 hba
      refine ⟨by linarith, by linarith, ?_⟩
      apply ih r2 us' _ _ (fun x hx => hu x (by simp [hx])) (by simpa using hlen)
      linarith

theorem reverse_facts {mass : List ℝ} {r0 r1 : ℝ} {rest : List ℝ} (h : mass.reverse = r0 :: r1 :: rest) :
    mass.sum = r0 + r1 + rest.sum ∧ (∀ m ∈ mass, 0 ≤ m) = (∀ m ∈ r0 :: r1 :: rest, 0 ≤ m) := by
  constructor
  · rw [← List.sum_reverse, h]; simp; ring
  · rw [← h]; simp

/-! ### proposal density × weight -/

/-- density of the mass proposal of `generate_mass` (each mass uniform on `[a_i, b_i]`, `a_i = M_i + r_{i+1}`) -/
noncomputable def proposalAux (m0 : ℝ) : List ℝ → List ℝ → ℝ → ℝ → ℝ
  | r1 :: r2 :: rest, m :: ms, mn, sm => 1 / (m0 - sm - (mn + r1)) * proposalAux m0 (r2 :: rest) ms m (sm - r2)
  | _, _, _, _ => 1

noncomputable def proposal (m0 : ℝ) (mass ms : List ℝ) : ℝ :=
  proposalAux m0 (mass.reverse.drop 1) ms (mass.reverse.headD 0) (sm0 mass)

/-- every proposal interval has non-zero length -/
def PropOKAux (m0 : ℝ) : List ℝ → List ℝ → ℝ → ℝ → Prop
  | r1 :: r2 :: rest, m :: ms, mn, sm => m0 - sm - (mn + r1) ≠ 0 ∧ PropOKAux m0 (r2 :: rest) ms m (sm - r2)
  | _, _, _, _ => True

def PropOK (m0 : ℝ) (mass ms : List ℝ) : Prop :=
  PropOKAux m0 (mass.reverse.drop 1) ms (mass.reverse.headD 0) (sm0 mass)

theorem imp_times_proposal (m0 T : ℝ) (hT : T ≠ 0) (t : List ℝ) : ∀ (r1 : ℝ) (ms : List ℝ) (mn mnmin sm w : ℝ),
    ms.length = t.length → m0 - sm - (mnmin + r1) = T → PropOKAux m0 (r1 :: t) ms mn sm →
    importancesAux m0 (r1 :: t) ms (massRangeAux m0 (r1 :: t) mnmin sm) false mn sm w * proposalAux m0 (r1 :: t) ms mn sm
      = w / T ^ ms.length := by
  induction t with
  | nil =>
    intro r1 ms mn mnmin sm w hlen _ _
    have : ms = [] := by simpa using hlen
    subst this
    simp [importancesAux, proposalAux]
  | cons r2 rest ih =>
    intro r1 ms mn mnmin sm w hlen hTeq hok
    cases ms with
    | nil => simp at hlen
    | cons m ms' =>
      simp only [PropOKAux] at hok
      obtain ⟨hne, hok'⟩ := hok
      simp only [massRangeAux, importancesAux, proposalAux, Bool.false_eq_true, if_false]
      have := ih r2 ms' m (mnmin + r1) (sm - r2) (w * (m0 - sm - (mn + r1)) / (m0 - sm - (mnmin + r1)))
        (by simpa using hlen) (by linarith) hok'
      rw [mul_comm (1 / _), ← mul_assoc, this, hTeq]
      simp only [List.length_cons, pow_succ]
      field_simp

/-- `cal_max_weight` only rescales the weight by `1 / (1.001 · weight(x*))` (all inputs) -/
theorem getWeightCal_eq (r32 : ℝ → ℝ) (m0 : ℝ) (mass : List ℝ) (imp : Bool) (xopt ms : List ℝ) :
    getWeightCal r32 m0 mass imp xopt ms
      = getWeight r32 m0 mass imp ms / (getWeight r32 m0 mass true xopt * 1.001) := by
  unfold getWeightCal calWtMax
  cases imp with
  | false => simp only [getWeight, Bool.false_eq_true, if_false, div_div]
  | true => simp only [getWeight, if_true, div_div, mul_div_assoc]

/-! ### counting -/

theorem draw_some {n : Nat} {ds ds' : List (List ℝ)} {d : List ℝ} (h : draw n ds = some (d, ds')) :
    d.length = n ∧ ds = d :: ds' := by
  cases ds with
  | nil => simp [draw] at h
  | cons x xs =>
    simp only [draw] at h
    split at h
    · rename_i hx
      simp only [Option.some.injEq, Prod.mk.injEq] at h
      obtain ⟨h1, h2⟩ := h
      subst h1; subst h2
      exact ⟨hx, rfl⟩
    · simp at h

theorem drawMany_lengths (n : Nat) : ∀ (k : Nat) (ds ds' : List (List ℝ)) (cols : List (List ℝ)),
    drawMany n k ds = some (cols, ds') → (∀ c ∈ cols, c.length = n) ∧ cols.length = k := by
  intro k
  induction k with
  | zero =>
    intro ds ds' cols h
    simp only [drawMany, Option.some.injEq, Prod.mk.injEq] at h
    obtain ⟨h1, _⟩ := h
    subst h1
    simp
  | succ k ih =>
    intro ds ds' cols h
    simp only [drawMany] at h
    cases hd : draw n ds with
    | none => rw [hd] at h; simp at h
    | some p =>
      obtain ⟨c, ds1⟩ := p
      rw [hd] at h
      simp only at h
      cases hm : drawMany n k ds1 with
      | none => rw [hm] at h; simp at h
      | some q =>
        obtain ⟨cs, ds2⟩ := q
        rw [hm] at h
        simp only [Option.some.injEq, Prod.mk.injEq] at h
        obtain ⟨h1, _⟩ := h
        subst h1
        obtain ⟨ihl, ihk⟩ := ih ds1 ds2 cs hm
        obtain ⟨hc, _⟩ := draw_some hd
        constructor
        · intro x hx
          simp only [List.mem_cons] at hx
          rcases hx with hx | hx
          · rw [hx]; exact hc
          · exact ihl x hx
        · simp [ihk]

theorem rowsOf_length (n : Nat) (cols : List (List ℝ)) (h : ∀ c ∈ cols, c.length = n) :
    (rowsOf n cols).length = n := by
  unfold rowsOf
  suffices hs : ∀ (rows : List (List ℝ)), rows.length = n →
      (cols.foldl (fun rows c => List.zipWith (fun row u => row ++ [u]) rows c) rows).length = n by
    exact hs _ (by simp)
  induction cols with
  | nil => intro rows hr; simpa using hr
  | cons c cs ih =>
    intro rows hr
    simp only [List.foldl_cons]
    apply ih (fun x hx => h x (by simp [hx]))
    rw [List.length_zipWith, hr, h c (by simp)]
    simp

theorem momentaB_length {r32 : ℝ → ℝ} {m0 : ℝ} {mass : List ℝ} {rows : List (List ℝ)} {ds ds' : List (List ℝ)}
    {ev : List (List TfPwaV.KinR.V4)} (h : momentaB r32 m0 mass rows ds = some (ev, ds')) :
    ev.length = rows.length := by
  unfold momentaB at h
  cases hm : drawMany rows.length (2 * (mass.length - 1)) ds with
  | none => rw [hm] at h; simp at h
  | some q =>
    obtain ⟨cols, ds1⟩ := q
    rw [hm] at h
    simp only [Option.some.injEq, Prod.mk.injEq] at h
    obtain ⟨h1, _⟩ := h
    subst h1
    rw [List.length_zipWith, rowsOf_length _ _ (drawMany_lengths _ _ _ _ _ hm).1]
    simp

/-- if the refill loop exits, at least `N` mass points have been accepted -/
theorem refill_length {r32 : ℝ → ℝ} {m0 : ℝ} {mass : List ℝ} {guess : Nat → Nat → Nat → Nat} {N : Nat} :
    ∀ (fuel : Nat) (acc : List (List ℝ)) (nGen nTotal : Nat) (ds : List (List ℝ))
      (acc' : List (List ℝ)) (nT : Nat) (ds' : List (List ℝ)),
    refill r32 m0 mass guess N fuel acc nGen nTotal ds = some (acc', nT, ds') → nGen = acc.length →
    N ≤ acc'.length := by
  intro fuel
  induction fuel with
  | zero =>
    intro acc nGen nTotal ds acc' nT ds' h hn
    simp only [refill] at h
    split at h
    · simp at h
    · rename_i hlt
      simp only [Option.some.injEq, Prod.mk.injEq] at h
      obtain ⟨h1, _⟩ := h
      subst h1
      omega
  | succ fuel ih =>
    intro acc nGen nTotal ds acc' nT ds' h hn
    simp only [refill] at h
    split at h
    · cases hb : batch r32 m0 mass true (min (guess nTotal nGen N) 4000000) ds with
      | none => rw [hb] at h; simp at h
      | some q =>
        obtain ⟨acc2, ds1⟩ := q
        rw [hb] at h
        simp only at h
        exact ih _ _ _ _ _ _ _ h (by simp [hn])
    · simp only [Option.some.injEq, Prod.mk.injEq] at h
      obtain ⟨h1, _⟩ := h
      subst h1
      omega

end TfPwaV.PhspR
