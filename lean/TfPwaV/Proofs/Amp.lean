import TfPwaV.Gen.AmpR
import TfPwaV.Proofs.Spinless
import TfPwaV.Proofs.FrameAlg
import Mathlib.Tactic.Ring
import Mathlib.Tactic.Linarith
import Mathlib.Algebra.BigOperators.Fin
/-!
Helper lemmas for `Props/C01d`: the executable amplitude-tensor model `templates/Amp.lean.in` at `K = ℝ`.

* the list sums / products of the model (`csum`, `cprod`, `rsum`, `sumOver`, `sumOverR`) under the bridge `toC : Cx → ℂ`;
* the contraction `sumOver` is linear in its summand, hence `Chain.ampWith` is linear in the ROW `Dtop la ·` of the
  top-vertex D-function (`ampWith_mix`) — this is the "chain tensor" form `Σ_μ D[λ_A, μ] · T[μ, …]` in the shape
  needed by `Proofs/UnitaryMix`;
* the D-function table of the model (`mkD` = `dMatrixConj` + `dGather`) is the matrix `FrameAlg.DConj` of the exact
  small-d table model, entry by entry (`toC_mkD`).
-/
open BigOperators
open TfPwaV.ScalarR
namespace TfPwaV.AmpR
open TfPwaV.LineShapeR TfPwaV.SpinlessR TfPwaV.Wigner TfPwaV.C12 TfPwaV.FrameAlg

/-! ### list sums under `toC` -/

theorem toC_zero : toC ⟨0, 0⟩ = 0 := by apply Complex.ext <;> simp
theorem toC_one : toC ⟨1, 0⟩ = 1 := by apply Complex.ext <;> simp

theorem normSq_toC (a : Cx) : Complex.normSq (toC a) = a.normSq := by
  simp [Complex.normSq_apply, Cx.normSq]

theorem toC_csum (l : List Cx) : toC (csum l) = (l.map toC).sum := by
  induction l with
  | nil => simp only [csum, List.map_nil, List.sum_nil]; exact toC_zero
  | cons a r ih => simp [csum, toC_add, ih]

theorem toC_cprod (l : List Cx) : toC (cprod l) = (l.map toC).prod := by
  induction l with
  | nil => simp only [cprod, List.map_nil, List.prod_nil]; exact toC_one
  | cons a r ih => simp [cprod, toC_mul, ih]

theorem rsum_eq (l : List ℝ) : rsum l = l.sum := by
  induction l with
  | nil => simp [rsum]
  | cons a r ih => simp [rsum, ih]

theorem list_sum_finset_sum {ι α : Type} (s : Finset ι) (xs : List α) (F : ι → α → ℂ) :
    (xs.map fun l => ∑ k ∈ s, F k l).sum = ∑ k ∈ s, (xs.map (F k)).sum := by
  induction xs with
  | nil => simp
  | cons x r ih => simp [ih, Finset.sum_add_distrib]

theorem list_sum_finset_sum_real {ι α : Type} (s : Finset ι) (xs : List α) (F : ι → α → ℝ) :
    (xs.map fun l => ∑ k ∈ s, F k l).sum = ∑ k ∈ s, (xs.map (F k)).sum := by
  induction xs with
  | nil => simp
  | cons x r ih => simp [ih, Finset.sum_add_distrib]

theorem list_sum_mul_left {α : Type} (xs : List α) (c : ℂ) (G : α → ℂ) :
    (xs.map fun l => c * G l).sum = c * (xs.map G).sum := by
  induction xs with
  | nil => simp
  | cons x r ih => simp [ih, mul_add]

/-! ### the contraction is linear in its summand -/

theorem toC_sumOver_lin {ι : Type} (s : Finset ι) (u : ι → ℂ) (L : List (Nat × List Int)) (f : Hel → Cx)
    (g : ι → Hel → Cx) (hf : ∀ h, toC (f h) = ∑ k ∈ s, u k * toC (g k h)) (h : Hel) :
    toC (sumOver L f h) = ∑ k ∈ s, u k * toC (sumOver L (g k) h) := by
  induction L generalizing h with
  | nil => simpa [sumOver] using hf h
  | cons x r ih =>
    simp only [sumOver, toC_csum, List.map_map]
    have e1 : List.map (toC ∘ fun l => sumOver r f (h.set x.1 l)) x.2
        = List.map (fun l => ∑ k ∈ s, u k * toC (sumOver r (g k) (h.set x.1 l))) x.2 :=
      List.map_congr_left (fun l _ => ih _)
    rw [e1, list_sum_finset_sum]
    refine Finset.sum_congr rfl fun k _ => ?_
    rw [list_sum_mul_left]
    rfl

/-- the contraction of a summand that is a constant multiple -/
theorem toC_sumOver_smul (c : ℂ) (L : List (Nat × List Int)) (f g : Hel → Cx)
    (hf : ∀ h, toC (f h) = c * toC (g h)) (h : Hel) :
    toC (sumOver L f h) = c * toC (sumOver L g h) := by
  have := toC_sumOver_lin (Finset.univ : Finset Unit) (fun _ => c) L f (fun _ => g) (by simpa using hf) h
  simpa using this

/-- the contraction of a sum of two summands -/
theorem toC_sumOver_add (a b : ℂ) (L : List (Nat × List Int)) (f g1 g2 : Hel → Cx)
    (hf : ∀ h, toC (f h) = a * toC (g1 h) + b * toC (g2 h)) (h : Hel) :
    toC (sumOver L f h) = a * toC (sumOver L g1 h) + b * toC (sumOver L g2 h) := by
  have := toC_sumOver_lin (Finset.univ : Finset Bool) (fun k => if k then a else b) L f
    (fun k => if k then g1 else g2) (by intro h; simpa [add_comm] using hf h) h
  simpa [add_comm] using this

theorem sumOverR_congr (L : List (Nat × List Int)) (f g : Hel → ℝ) (hfg : ∀ h, f h = g h) (h : Hel) :
    sumOverR L f h = sumOverR L g h := by
  have : f = g := funext hfg
  rw [this]

theorem sumOverR_finset_sum {ι : Type} (s : Finset ι) (L : List (Nat × List Int)) (F : ι → Hel → ℝ) (h : Hel) :
    sumOverR L (fun e => ∑ k ∈ s, F k e) h = ∑ k ∈ s, sumOverR L (F k) h := by
  induction L generalizing h with
  | nil => simp [sumOverR]
  | cons x r ih =>
    simp only [sumOverR, rsum_eq]
    have e1 : List.map (fun l => sumOverR r (fun e => ∑ k ∈ s, F k e) (h.set x.1 l)) x.2
        = List.map (fun l => ∑ k ∈ s, sumOverR r (F k) (h.set x.1 l)) x.2 :=
      List.map_congr_left (fun l _ => ih _)
    rw [e1, list_sum_finset_sum_real]

theorem sumOverR_nonneg (L : List (Nat × List Int)) (f : Hel → ℝ) (hf : ∀ h, 0 ≤ f h) (h : Hel) :
    0 ≤ sumOverR L f h := by
  induction L generalizing h with
  | nil => simpa [sumOverR] using hf h
  | cons x r ih =>
    simp only [sumOverR, rsum_eq]
    apply List.sum_nonneg
    intro y hy
    simp only [List.mem_map] at hy
    obtain ⟨l, _, rfl⟩ := hy
    exact ih _

/-! ### the chain amplitude is linear in the row of the top-vertex D-function -/

theorem ampWith_mix {ι : Type} (s : Finset ι) (u : ι → ℂ) (κ : ι → Int) (C : Chain)
    (Dtop' Dtop : Int → Int → Cx) (Dal : Align → Int → Int → Cx) (la : Int) (ext : Hel)
    (hD : ∀ δ, toC (Dtop' la δ) = ∑ k ∈ s, u k * toC (Dtop (κ k) δ)) :
    toC (C.ampWith Dtop' Dal la ext) = ∑ k ∈ s, u k * toC (C.ampWith Dtop Dal (κ k) ext) := by
  unfold Chain.ampWith
  simp only [toC_mul]
  rw [toC_sumOver_lin s u C.inner (C.term Dtop' Dal la ext) (fun k => C.term Dtop Dal (κ k) ext) _ ext]
  · rw [Finset.mul_sum]
    refine Finset.sum_congr rfl fun k _ => ?_
    ring
  · intro h
    unfold Chain.term
    simp only [toC_mul, hD, Finset.mul_sum, Finset.sum_mul]
    refine Finset.sum_congr rfl fun k _ => ?_
    ring

theorem groupAmpWith_mix {ι : Type} (s : Finset ι) (u : ι → ℂ) (κ : ι → Int) (cs : List Chain)
    (Dtop' Dtop : Chain → Int → Int → Cx) (Dal : Chain → Align → Int → Int → Cx) (la : Int) (ext : Hel)
    (hD : ∀ C ∈ cs, ∀ δ, toC (Dtop' C la δ) = ∑ k ∈ s, u k * toC (Dtop C (κ k) δ)) :
    toC (groupAmpWith cs Dtop' Dal la ext) = ∑ k ∈ s, u k * toC (groupAmpWith cs Dtop Dal (κ k) ext) := by
  unfold groupAmpWith
  induction cs with
  | nil => simp only [List.map_nil, csum]; rw [toC_zero]; simp
  | cons C r ih =>
    simp only [List.map_cons, csum, toC_add]
    rw [ampWith_mix s u κ C (Dtop' C) (Dtop C) (Dal C) la ext (hD C (List.mem_cons_self ..)),
      ih (fun C' hC' => hD C' (List.mem_cons_of_mem _ hC')), ← Finset.sum_add_distrib]
    refine Finset.sum_congr rfl fun k _ => ?_
    ring

/-! ### helicity lists -/

/-- doubled helicity of index `i` for spin `N/2` -/
def hel2 (N : ℕ) (i : Fin (N + 1)) : Int := 2 * ((i : ℕ) : Int) - (N : Int)

theorem rsum_mRange (N : ℕ) (φ : Int → ℝ) :
    rsum ((mRange N).map φ) = ∑ i : Fin (N + 1), φ (hel2 N i) := by
  rw [rsum_eq]
  unfold mRange
  rw [List.map_map]
  have := list_range_sum (fun i => φ (2 * (i : Int) - (N : Int))) (N + 1)
  simp only [Function.comp_def] at this ⊢
  rw [this, Finset.sum_range]
  rfl

/-! ### the D-function table of the model is the matrix `DConj` -/

theorem evalSC_eq_evalQ (p : List Rat) (s c : ℝ) : evalSC p s c = evalQ p s c := by
  induction p with
  | nil => simp [evalSC, evalQ]
  | cons a p ih => simp [evalSC, evalQ, ih, kpowN_eq, kofRat]

theorem smallD_eq_dReal (N im inn : ℕ) (β : ℝ) : smallD N im inn β = dReal N im inn β := by
  unfold smallD dReal
  rw [evalSC_eq_evalQ]
  rfl

theorem kofInt_cast (z : Int) : kofInt z = (z : ℝ) := by
  unfold kofInt kofNat
  split_ifs with h
  · have hz : (z : ℝ) < 0 := by exact_mod_cast h
    rw [Nat.cast_natAbs, Int.cast_abs, abs_of_neg hz]; ring
  · have hz : (0 : ℝ) ≤ z := by exact_mod_cast (not_lt.mp h)
    rw [Nat.cast_natAbs, Int.cast_abs, abs_of_nonneg hz]

theorem toC_expI (x : ℝ) : toC (expI x) = Complex.exp ((x : ℂ) * Complex.I) := by
  rw [Complex.exp_mul_I]
  apply Complex.ext <;> simp [expI, kcos, ksin, ← Complex.ofReal_cos, ← Complex.ofReal_sin]

/-- entry `(i, k)` of the model's `D_matrix_conj` is entry `(i, k)` of `FrameAlg.DConj` -/
theorem toC_dConjDelta (N : ℕ) (i k : Fin (N + 1)) (α β γ : ℝ) :
    toC (dConjDelta N (hel2 N i) (hel2 N k) α β γ) = DConj N α β γ i k := by
  have hi : (i : ℕ) ≤ N := Nat.lt_succ_iff.mp i.2
  have hk : (k : ℕ) ≤ N := Nat.lt_succ_iff.mp k.2
  have h1 : (hel2 N k).natAbs ≤ N := by unfold hel2; omega
  have e1 : ((hel2 N i + (N : Int)) / 2).toNat = (i : ℕ) := by unfold hel2; omega
  have e2 : ((hel2 N k + (N : Int)) / 2).toNat = (k : ℕ) := by unfold hel2; omega
  unfold dConjDelta
  rw [if_pos h1]
  simp only [e1, e2, toC_smul, toC_mul, toC_expI, smallD_eq_dReal, kofInt_cast]
  rw [DConj_apply]
  unfold phase hel hel2
  push_cast
  ring_nf

theorem getD_map_range {α : Type} (n i : ℕ) (f : ℕ → α) (d : α) (h : i < n) :
    ((List.range n).map f).getD i d = f i := by
  simp [List.getD, h]

/-- `mkD` (the table `dMatrixConj` gathered by `dGather`) at a row helicity `hel2 N i`: the padding zero for
`|δ| > N`, otherwise the entry `(i, ⌊(δ+N)/2⌋)` of `DConj` -/
theorem toC_mkD (N : ℕ) (i : Fin (N + 1)) (δ : Int) (α β γ : ℝ) :
    toC (mkD N α β γ (hel2 N i) δ) =
      if h : δ.natAbs ≤ N then DConj N α β γ i ⟨((δ + (N : Int)) / 2).toNat, by omega⟩ else 0 := by
  unfold mkD dGather
  split_ifs with h
  · have e1 : ((hel2 N i + (N : Int)) / 2).toNat = (i : ℕ) := by unfold hel2; have := i.2; omega
    have hk : ((δ + (N : Int)) / 2).toNat < N + 1 := by omega
    simp only [e1]
    unfold dMatrixConj
    rw [getD_map_range _ _ _ _ i.2, getD_map_range _ _ _ _ hk]
    exact toC_dConjDelta N i ⟨_, hk⟩ α β γ
  · exact toC_zero

end TfPwaV.AmpR
