import TfPwaV.Proofs.Amp
/-!
Helper lemmas for `Props/C04c`: the general amplitude-tensor model (`templates/Amp.lean.in`, ℝ instance) on a two-vertex
chain with spin-0 external particles, piece by piece:

* `mkH_single`: the helicity coupling of a vertex with ONE (l,s) pair read from the tables `calCgMatrix` / `hTable`;
* `mkD_hel2`: the gathered D-function table entry is `dConjDelta` (as a `Cx` value, not only under `toC`);
* `csum_eq_sumFrom`: the right-nested sum of the general model is the left-to-right sum of `Spinless.helAmp` over ℝ.
-/
open TfPwaV.ScalarR
namespace TfPwaV.AmpR
open TfPwaV.LineShapeR TfPwaV.SpinlessR TfPwaV.Wigner

theorem getD_map_idxOf {α β : Type} [DecidableEq α] (L : List α) (g : α → β) (x : α) (hx : x ∈ L) (d : β) :
    (L.map g).getD (L.idxOf x) d = g x := by
  induction L with
  | nil => simp at hx
  | cons a r ih =>
    by_cases h : a = x
    · subst h; simp
    · have hx' : x ∈ r := by
        rcases List.mem_cons.mp hx with h1 | h1
        · exact absurd h1.symm h
        · exact h1
      rw [List.idxOf_cons_ne _ h]
      simpa using ih hx'

theorem idxOf_lt_of_mem {α : Type} [DecidableEq α] (L : List α) (x : α) (hx : x ∈ L) : L.idxOf x < L.length :=
  List.idxOf_lt_length_iff.mpr hx

/-- `HelicityDecay.get_helicity_amp` for ONE (l,s) pair: `H[λb,λc] = g · bf · cg[λb][λc]` (+ the empty rest of the sum) -/
theorem mkH_single (ja jb jc : ℕ) (x : ℕ × ℕ) (lbs lcs : List Int) (g : Cx) (q2 q02 : ℝ) (lb lc : Int)
    (hb : lb ∈ lbs) (hc : lc ∈ lcs) :
    mkH lbs lcs [x] (calCgMatrix ja jb jc [x] lbs lcs) [g] q2 q02 lb lc
      = ((g.mul ⟨barrier (x.1 / 2) q2 q02 dRad, 0⟩).mul ⟨cgMatrixEntry ja jb jc x.1 x.2 lb lc, 0⟩).add ⟨0, 0⟩ := by
  unfold mkH hTable
  rw [getD_map_range _ _ _ _ (idxOf_lt_of_mem lbs lb hb), getD_map_range _ _ _ _ (idxOf_lt_of_mem lcs lc hc)]
  simp only [barrierFactors, calCgMatrix, List.map_cons, List.map_nil, lsAmp, hEntry]
  rw [getD_map_idxOf lbs _ lb hb, getD_map_idxOf lcs _ lc hc]

/-- the gathered entry of the D-function table, as a `Cx` value -/
theorem mkD_hel2 (N : ℕ) (i k : Fin (N + 1)) (α β γ : ℝ) :
    mkD N α β γ (hel2 N i) (hel2 N k) = dConjDelta N (hel2 N i) (hel2 N k) α β γ := by
  have hk : (hel2 N k).natAbs ≤ N := by unfold hel2; have := k.2; omega
  have e1 : ((hel2 N i + (N : Int)) / 2).toNat = (i : ℕ) := by unfold hel2; have := i.2; omega
  have e2 : ((hel2 N k + (N : Int)) / 2).toNat = (k : ℕ) := by unfold hel2; have := k.2; omega
  unfold mkD dGather
  rw [if_pos hk]
  simp only [e1, e2]
  unfold dMatrixConj
  rw [getD_map_range _ _ _ _ i.2, getD_map_range _ _ _ _ k.2]
  rfl

/-- the padding zero of the gather: `|δ| > j` -/
theorem mkD_pad (N : ℕ) (la δ : Int) (α β γ : ℝ) (h : ¬ δ.natAbs ≤ N) : mkD N α β γ la δ = ⟨0, 0⟩ := by
  unfold mkD dGather
  rw [if_neg h]

theorem mem_mRange (N : ℕ) (l : Int) (hl : l ∈ mRange N) : ∃ i : Fin (N + 1), l = hel2 N i := by
  unfold mRange at hl
  obtain ⟨i, hi, rfl⟩ := List.mem_map.mp hl
  exact ⟨⟨i, List.mem_range.mp hi⟩, rfl⟩

theorem Cx.add_assoc' (a b c : Cx) : (a.add b).add c = a.add (b.add c) := by
  rw [Cx.eq_iff]; simp only [Cx.add]; constructor <;> ring

theorem Cx.zero_add' (a : Cx) : (⟨0, 0⟩ : Cx).add a = a := by
  rw [Cx.eq_iff]; simp [Cx.add]

theorem Cx.mul_one' (a : Cx) : a.mul ⟨1, 0⟩ = a := by
  rw [Cx.eq_iff]; simp [Cx.mul]

/-- over ℝ the left-to-right sum `Cx.sumFrom` is the right-nested `csum` -/
theorem sumFrom_eq_csum (acc : Cx) (L : List Cx) : Cx.sumFrom acc L = acc.add (csum L) := by
  induction L generalizing acc with
  | nil => rw [Cx.eq_iff]; simp [Cx.sumFrom, csum, Cx.add]
  | cons a r ih => simp only [Cx.sumFrom, csum, ih, Cx.add_assoc']

theorem csum_eq_sumFrom (L : List Cx) : csum L = Cx.sumFrom ⟨0, 0⟩ L := by
  rw [sumFrom_eq_csum, Cx.zero_add']

end TfPwaV.AmpR
