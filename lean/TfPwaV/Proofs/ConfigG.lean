import TfPwaV.Model.ConfigD
import TfPwaV.Proofs.Config
/-! Helper lemmas for C19g (core Lean only). -/
namespace TfPwaV.ConfigD
open TfPwaV.Config

/-! ### dicts -/

theorem getKV_setKV' {β : Type} (a : List (String × β)) (k' k : String) (v' : β) :
    getKV (setKV a k' v') k = if k' = k then some v' else getKV a k := by
  induction a with
  | nil => simp [setKV, getKV]
  | cons y ys ih =>
    simp only [setKV]
    split
    · rename_i hy
      simp only [getKV]
      by_cases hk : k' = k
      · simp [hy, hk]
      · have : ¬ y.1 = k := by rw [hy]; exact hk
        simp [this, hk]
    · rename_i hy1
      simp only [getKV]
      split
      · rename_i hy2
        have : ¬ k' = k := by intro e; apply hy1; rw [hy2, e]
        simp [this]
      · exact ih

/-- the LAST value written for `k` by the items of `b` (a Python dict has one) -/
def lastKV {β : Type} (b : List (String × β)) (k : String) : Option β :=
  b.foldl (fun acc kv => if kv.1 = k then some kv.2 else acc) none

theorem foldl_last {β : Type} (b : List (String × β)) (k : String) (init : Option β) :
    b.foldl (fun acc kv => if kv.1 = k then some kv.2 else acc) init = (lastKV b k).orElse fun _ => init := by
  unfold lastKV
  induction b generalizing init with
  | nil => simp
  | cons x xs ih =>
    simp only [List.foldl_cons]
    rw [ih, ih (if x.1 = k then some x.2 else none)]
    by_cases hx : x.1 = k
    · simp [hx]
    · simp [hx]

/-- `a.update(b)`: a key of `b` wins, otherwise the value of `a` stays -/
theorem getKV_updKV {β : Type} (a b : List (String × β)) (k : String) :
    getKV (updKV a b) k = (lastKV b k).orElse fun _ => getKV a k := by
  unfold updKV
  induction b generalizing a with
  | nil => simp [lastKV]
  | cons x xs ih =>
    simp only [List.foldl_cons]
    rw [ih, getKV_setKV']
    unfold lastKV
    simp only [List.foldl_cons]
    rw [foldl_last xs k (if x.1 = k then some x.2 else none)]
    by_cases hx : x.1 = k
    · cases h : lastKV xs k <;> simp [hx, lastKV] at * <;> simp_all
    · cases h : lastKV xs k <;> simp [hx, lastKV] at * <;> simp_all

end TfPwaV.ConfigD
