import TfPwaV.Proofs.Phsp
import TfPwaV.Props.C11
/-! Helper lemmas for C10: momenta built by `generate_momentum_i` (energies, direction, recoil boost). -/
open TfPwaV.ScalarR
namespace TfPwaV.PhspR
open TfPwaV.KinR

/-- component-wise sum of a list of four-vectors -/
def sumV4 (l : List V4) : V4 := l.foldr V4.add ⟨0, 0, 0, 0⟩

@[simp] theorem sumV4_nil : sumV4 [] = ⟨0, 0, 0, 0⟩ := rfl
@[simp] theorem sumV4_cons (p : V4) (l : List V4) : sumV4 (p :: l) = p.add (sumV4 l) := rfl

theorem V4.ext' {p q : V4} (h0 : p.t = q.t) (h1 : p.x = q.x) (h2 : p.y = q.y) (h3 : p.z = q.z) : p = q := by
  cases p; cases q; simp only [V4.mk.injEq]; exact ⟨h0, h1, h2, h3⟩

/-- boosts are linear -/
theorem boost_add (p q : V4) (v : V3) : (p.add q).boost v = (p.boost v).add (q.boost v) := by
  apply V4.ext' <;> simp only [V4.boost, V4.add, V3.dot, V4.vect] <;> ring

theorem boost_zero_vec (v : V3) : (⟨0, 0, 0, 0⟩ : V4).boost v = ⟨0, 0, 0, 0⟩ := by
  apply V4.ext' <;> simp only [V4.boost, V3.dot, V4.vect] <;> ring

theorem sumV4_map_boost (l : List V4) (v : V3) : sumV4 (l.map (fun x => x.boost v)) = (sumV4 l).boost v := by
  induction l with
  | nil => simp [boost_zero_vec]
  | cons p t ih => simp only [List.map_cons, sumV4_cons, ih, boost_add]

/-- the energies of the two daughters of `M → m1 m2` with `q = get_p(M, m1, m2)` -/
theorem energy_first {M m1 m2 : ℝ} (hM : 0 < M) (h1 : 0 ≤ m1) (h2 : 0 ≤ m2) (h : m1 + m2 ≤ M) :
    Real.sqrt (getP M m1 m2 * getP M m1 m2 + m1 * m1) = (M * M + m1 * m1 - m2 * m2) / (2 * M) := by
  rw [getP_sq hM h1 h2 h]
  have hne : M ≠ 0 := ne_of_gt hM
  have : g2 M m1 m2 + m1 * m1 = ((M * M + m1 * m1 - m2 * m2) / (2 * M)) * ((M * M + m1 * m1 - m2 * m2) / (2 * M)) := by
    unfold g2 p2Of
    field_simp
    ring
  rw [this]
  apply Real.sqrt_mul_self
  apply div_nonneg _ (by linarith)
  nlinarith

theorem p2Of_symm (M a b : ℝ) : p2Of M a b = p2Of M b a := by unfold p2Of; ring
theorem getP_symm (M a b : ℝ) : getP M a b = getP M b a := by unfold getP; rw [p2Of_symm]

theorem energy_second {M m1 m2 : ℝ} (hM : 0 < M) (h1 : 0 ≤ m1) (h2 : 0 ≤ m2) (h : m1 + m2 ≤ M) :
    Real.sqrt (getP M m1 m2 * getP M m1 m2 + m2 * m2) = (M * M + m2 * m2 - m1 * m1) / (2 * M) := by
  rw [getP_symm]
  exact energy_first hM h2 h1 (by linarith)

/-- two-body energy conservation -/
theorem energy_sum {M m1 m2 : ℝ} (hM : 0 < M) (h1 : 0 ≤ m1) (h2 : 0 ≤ m2) (h : m1 + m2 ≤ M) :
    Real.sqrt (getP M m1 m2 * getP M m1 m2 + m2 * m2) + Real.sqrt (getP M m1 m2 * getP M m1 m2 + m1 * m1) = M := by
  rw [energy_first hM h1 h2 h, energy_second hM h1 h2 h]
  field_simp
  ring

/-- the random direction is a unit vector (`cos θ = 2u-1` with `u ∈ [0,1]`) -/
theorem dir_norm (q u1 phi : ℝ) (h0 : 0 ≤ u1) (h1 : u1 ≤ 1) :
    (q * Real.sqrt (1 - (2 * u1 - 1) * (2 * u1 - 1)) * Real.cos phi) * (q * Real.sqrt (1 - (2 * u1 - 1) * (2 * u1 - 1)) * Real.cos phi)
    + (q * Real.sqrt (1 - (2 * u1 - 1) * (2 * u1 - 1)) * Real.sin phi) * (q * Real.sqrt (1 - (2 * u1 - 1) * (2 * u1 - 1)) * Real.sin phi)
    + (q * (2 * u1 - 1)) * (q * (2 * u1 - 1)) = q * q := by
  have hs : 0 ≤ 1 - (2 * u1 - 1) * (2 * u1 - 1) := by nlinarith
  have hsq := Real.mul_self_sqrt hs
  have htrig := Real.sin_sq_add_cos_sq phi
  set s := Real.sqrt (1 - (2 * u1 - 1) * (2 * u1 - 1)) with hsdef
  have : s * s = 1 - (2 * u1 - 1) * (2 * u1 - 1) := hsq
  linear_combination (q * q * (Real.cos phi ^ 2 + Real.sin phi ^ 2)) * this + (q * q * (1 - (2 * u1 - 1) * (2 * u1 - 1))) * htrig

/-- boosting the rest vector `(m,0,0,0)` with the velocity of an on-shell `p0` of mass `m` gives `p0` -/
theorem rest_boost (p0 : V4) (m : ℝ) (hm : 0 < m) (hE : 0 < p0.t)
    (hshell : p0.t * p0.t - p0.x * p0.x - p0.y * p0.y - p0.z * p0.z = m * m) :
    (⟨m, 0, 0, 0⟩ : V4).boost p0.boostVector = p0 := by
  have hEne : p0.t ≠ 0 := ne_of_gt hE
  have hb2 : p0.boostVector.norm2 = 1 - (m / p0.t) * (m / p0.t) := by
    simp only [V4.boostVector, V3.norm2]
    field_simp
    linarith
  have hg : gammaOf p0.boostVector.norm2 = p0.t / m := by
    unfold gammaOf ksqrt
    rw [hb2]
    have : 1 - (1 - m / p0.t * (m / p0.t)) = (m / p0.t) * (m / p0.t) := by ring
    rw [this, Real.sqrt_mul_self (by positivity)]
    field_simp
  apply V4.ext' <;> simp only [V4.boost, V3.dot, V4.vect, hg] <;> simp only [V4.boostVector] <;> field_simp <;> ring

theorem neg_boostVector (p : V4) : p.boostVector.neg = p.neg.boostVector := by
  simp only [V4.boostVector, V3.neg, V4.neg, neg_div]

/-- on-shell predicate used for lists of momenta / masses -/
def OnShell (p : V4) (m : ℝ) : Prop := p.m2 = m * m

/-- ordering / positivity of the masses along the sequential decay, as needed by `generate_momentum` -/
def MomChain (m0 : ℝ) : ℝ → List ℝ → List ℝ → Prop
  | mp, m :: ms, r :: rs => 0 < m ∧ mp + r ≤ m ∧ MomChain m0 m ms rs
  | mp, [], [r] => 0 < m0 ∧ mp + r ≤ m0
  | _, _, _ => False

/-- the recoil boost of every step after the first is in the regular branch `ε < |v|² < 1` of `LorentzVector.boost`
(`|v|² = q²/(q²+M_prev²)`) -/
def RegChain (m0 : ℝ) : ℝ → Bool → List ℝ → List ℝ → Prop
  | mp, first, m :: ms, r :: rs =>
      (first = true ∨ (0 < mp ∧ eps * (getP m mp r * getP m mp r + mp * mp) < getP m mp r * getP m mp r)) ∧
        RegChain m0 m false ms rs
  | mp, first, [], [r] =>
      first = true ∨ (0 < mp ∧ eps * (getP m0 mp r * getP m0 mp r + mp * mp) < getP m0 mp r * getP m0 mp r)
  | _, _, _, _ => False

section step
variable (M mp r u1 u2 : ℝ) (hM : 0 < M) (hmp : 0 ≤ mp) (hr : 0 ≤ r) (hthr : mp + r ≤ M) (hu0 : 0 ≤ u1) (hu1 : u1 ≤ 1)
include hM hmp hr hthr hu0 hu1

/-- one two-body step conserves four-momentum: daughters + boosted previous system add up to `(M,0,0,0)` -/
theorem momStep_sum (pl : List V4) (hpl : pl = [] ∨ (0 < mp ∧ sumV4 pl = ⟨mp, 0, 0, 0⟩)) :
    sumV4 (momStep mp r (getP M mp r) u1 u2 pl) = ⟨M, 0, 0, 0⟩ := by
  have hE := energy_sum hM hmp hr hthr
  have hdir := dir_norm (getP M mp r) u1 (2 * Real.pi * u2) hu0 hu1
  rcases hpl with hnil | ⟨hmpos, hsum⟩
  · subst hnil
    simp only [momStep, List.isEmpty_nil, if_true, List.map_nil, List.append_nil, sumV4_cons, sumV4_nil, V4.add, V4.neg, ksqrt]
    apply V4.ext' <;> simp only
    · linarith
    · ring
    · ring
    · ring
  · have hne : pl.isEmpty = false := by
      cases pl with
      | nil => simp [sumV4] at hsum; linarith
      | cons a t => rfl
    simp only [momStep, hne, Bool.false_eq_true, if_false, List.nil_append, sumV4_cons]
    have hrest : ∀ (pb : V4), (fun x => pb.restVector x) = (fun x : V4 => x.boost pb.boostVector.neg) := by
      intro pb; funext x; rfl
    rw [hrest, sumV4_map_boost, hsum, neg_boostVector]
    have hq2 : 0 < getP M mp r * getP M mp r + mp * mp := by nlinarith [mul_self_nonneg (getP M mp r)]
    rw [rest_boost _ mp hmpos]
    · simp only [V4.add, V4.neg, ksqrt]
      apply V4.ext' <;> simp only
      · linarith
      · ring
      · ring
      · ring
    · simp only [V4.neg, ksqrt]
      exact Real.sqrt_pos.mpr hq2
    · simp only [V4.neg, ksqrt, kcos, ksin, kpi]
      rw [Real.mul_self_sqrt hq2.le]
      linarith

omit hM hmp hr hthr in
/-- one two-body step keeps every particle on its mass shell (new daughter, first recoil, boosted older ones) -/
theorem momStep_shell (pl : List V4) (done : List ℝ) (hsh : List.Forall₂ OnShell pl done)
    (hreg : pl = [] ∨ (0 < mp ∧ eps * (getP M mp r * getP M mp r + mp * mp) < getP M mp r * getP M mp r)) :
    List.Forall₂ OnShell (momStep mp r (getP M mp r) u1 u2 pl) (r :: (if pl.isEmpty then [mp] else done)) := by
  have hdir := dir_norm (getP M mp r) u1 (2 * Real.pi * u2) hu0 hu1
  have hq2r : 0 ≤ getP M mp r * getP M mp r + r * r := by nlinarith [mul_self_nonneg (getP M mp r)]
  have hq2m : 0 ≤ getP M mp r * getP M mp r + mp * mp := by nlinarith [mul_self_nonneg (getP M mp r)]
  have hnew : OnShell ⟨ksqrt (getP M mp r * getP M mp r + r * r),
      getP M mp r * ksqrt (1 - (2 * u1 - 1) * (2 * u1 - 1)) * kcos (2 * kpi * u2),
      getP M mp r * ksqrt (1 - (2 * u1 - 1) * (2 * u1 - 1)) * ksin (2 * kpi * u2),
      getP M mp r * (2 * u1 - 1)⟩ r := by
    simp only [OnShell, V4.m2, V4.dot, ksqrt, kcos, ksin, kpi]
    rw [Real.mul_self_sqrt hq2r]
    linarith
  cases pl with
  | nil =>
    simp only [momStep, List.isEmpty_nil, if_true, List.map_nil, List.append_nil]
    refine List.Forall₂.cons hnew (List.Forall₂.cons ?_ List.Forall₂.nil)
    simp only [OnShell, V4.m2, V4.dot, V4.neg, ksqrt, kcos, ksin, kpi]
    rw [Real.mul_self_sqrt hq2m]
    linarith
  | cons a t =>
    rcases hreg with hnil | ⟨hmpos, hreg⟩
    · simp at hnil
    simp only [momStep, List.isEmpty_cons, Bool.false_eq_true, if_false, List.nil_append]
    refine List.Forall₂.cons hnew ?_
    -- velocity of the recoil boost
    set pb : V4 := ⟨ksqrt (getP M mp r * getP M mp r + mp * mp),
      getP M mp r * ksqrt (1 - (2 * u1 - 1) * (2 * u1 - 1)) * kcos (2 * kpi * u2),
      getP M mp r * ksqrt (1 - (2 * u1 - 1) * (2 * u1 - 1)) * ksin (2 * kpi * u2),
      getP M mp r * (2 * u1 - 1)⟩ with hpb
    have hq2pos : 0 < getP M mp r * getP M mp r + mp * mp := by nlinarith [mul_self_nonneg (getP M mp r)]
    have hv : pb.boostVector.neg.norm2 = getP M mp r * getP M mp r / (getP M mp r * getP M mp r + mp * mp) := by
      rw [norm2_neg]
      simp only [hpb, V4.boostVector, V3.norm2, ksqrt, kcos, ksin, kpi]
      have hs := Real.mul_self_sqrt hq2pos.le
      have hsne : Real.sqrt (getP M mp r * getP M mp r + mp * mp) ≠ 0 := ne_of_gt (Real.sqrt_pos.mpr hq2pos)
      rw [div_mul_div_comm, div_mul_div_comm, div_mul_div_comm, hs, ← add_div, ← add_div, hdir]
    have hv1 : eps < pb.boostVector.neg.norm2 := by
      rw [hv, lt_div_iff₀ hq2pos]; exact hreg
    have hv2 : pb.boostVector.neg.norm2 < 1 := by
      rw [hv, div_lt_one hq2pos]; nlinarith
    have hmap : ∀ (l : List V4) (d : List ℝ), List.Forall₂ OnShell l d →
        List.Forall₂ OnShell (l.map (fun x => pb.restVector x)) d := by
      intro l d h
      induction h with
      | nil => exact List.Forall₂.nil
      | cons hx _ ih =>
        refine List.Forall₂.cons ?_ ih
        simp only [OnShell, V4.m2, V4.restVector] at hx ⊢
        rw [TfPwaV.C11.boost_minkowski _ _ _ hv1 hv2]
        exact hx
    exact hmap _ _ hsh

end step

theorem genMomAux_sum (m0 : ℝ) : ∀ (ms rs : List ℝ) (us : List (ℝ × ℝ)) (mp : ℝ) (py : Bool) (pl : List V4),
    MomChain m0 mp ms rs → 0 ≤ mp → (∀ r ∈ rs, 0 ≤ r) → us.length = rs.length →
    (∀ u ∈ us, 0 ≤ u.1 ∧ u.1 ≤ 1) → (pl = [] ∨ (0 < mp ∧ sumV4 pl = ⟨mp, 0, 0, 0⟩)) →
    sumV4 (genMomAux id m0 mp py ms rs us pl) = ⟨m0, 0, 0, 0⟩ := by
  intro ms
  induction ms with
  | nil =>
    intro rs us mp py pl hch hmp hrs hlen hu hpl
    match rs, hch with
    | [r], hch =>
      obtain ⟨hm0, hthr⟩ := hch
      match us, hlen with
      | [u], _ =>
        have hq : (if py then getPpy id m0 mp r else getPm id m0 mp r) = getP m0 mp r := by
          cases py <;> simp [getPpy_id, getPm_id]
        simp only [genMomAux, hq]
        exact momStep_sum m0 mp r u.1 u.2 hm0 hmp (hrs r (by simp)) hthr (hu u (by simp)).1 (hu u (by simp)).2 pl hpl
  | cons m ms' ih =>
    intro rs us mp py pl hch hmp hrs hlen hu hpl
    match rs, hch with
    | r :: rs', hch =>
      obtain ⟨hm, hthr, hch'⟩ := hch
      match us, hlen with
      | u :: us', hlen =>
        simp only [genMomAux]
        apply ih rs' us' m false _ hch' hm.le (fun x hx => hrs x (by simp [hx])) (by simpa using hlen)
          (fun x hx => hu x (by simp [hx]))
        right
        exact ⟨hm, momStep_sum m mp r u.1 u.2 hm hmp (hrs r (by simp)) hthr (hu u (by simp)).1 (hu u (by simp)).2 pl hpl⟩

theorem momStep_ne_nil (m1 m2 q u1 u2 : ℝ) (pl : List V4) : momStep m1 m2 q u1 u2 pl ≠ [] := by
  simp [momStep]

theorem genMomAux_shell (m0 : ℝ) : ∀ (ms rs : List ℝ) (us : List (ℝ × ℝ)) (mp : ℝ) (py first : Bool) (pl : List V4)
    (done : List ℝ),
    RegChain m0 mp first ms rs → us.length = rs.length → (∀ u ∈ us, 0 ≤ u.1 ∧ u.1 ≤ 1) →
    (first = true → pl = []) → (first = false → pl ≠ []) → List.Forall₂ OnShell pl done →
    List.Forall₂ OnShell (genMomAux id m0 mp py ms rs us pl) (rs.reverse ++ (if first then [mp] else done)) := by
  intro ms
  induction ms with
  | nil =>
    intro rs us mp py first pl done hreg hlen hu hf1 hf2 hsh
    match rs, hreg with
    | [r], hreg =>
      match us, hlen with
      | [u], _ =>
        have hq : (if py then getPpy id m0 mp r else getPm id m0 mp r) = getP m0 mp r := by
          cases py <;> simp [getPpy_id, getPm_id]
        simp only [genMomAux, hq, List.reverse_cons, List.reverse_nil, List.nil_append, List.singleton_append]
        have hreg' : pl = [] ∨ (0 < mp ∧ eps * (getP m0 mp r * getP m0 mp r + mp * mp) < getP m0 mp r * getP m0 mp r) := by
          rcases hreg with h | h
          · exact Or.inl (hf1 h)
          · exact Or.inr h
        have := momStep_shell m0 mp r u.1 u.2 (hu u (by simp)).1 (hu u (by simp)).2 pl done hsh hreg'
        cases first with
        | true => rw [hf1 rfl] at this ⊢; simpa using this
        | false =>
          have hne : pl.isEmpty = false := by
            cases pl with
            | nil => exact absurd rfl (hf2 rfl)
            | cons a t => rfl
          simpa [hne] using this
  | cons m ms' ih =>
    intro rs us mp py first pl done hreg hlen hu hf1 hf2 hsh
    match rs, hreg with
    | r :: rs', hreg =>
      obtain ⟨hreg1, hreg'⟩ := hreg
      match us, hlen with
      | u :: us', hlen =>
        simp only [genMomAux]
        have hstep : pl = [] ∨ (0 < mp ∧ eps * (getP m mp r * getP m mp r + mp * mp) < getP m mp r * getP m mp r) := by
          rcases hreg1 with h | h
          · exact Or.inl (hf1 h)
          · exact Or.inr h
        have hs := momStep_shell m mp r u.1 u.2 (hu u (by simp)).1 (hu u (by simp)).2 pl done hsh hstep
        have := ih rs' us' m false false _ (r :: (if pl.isEmpty then [mp] else done)) hreg' (by simpa using hlen)
          (fun x hx => hu x (by simp [hx])) (by simp) (fun _ => momStep_ne_nil _ _ _ _ _ _) hs
        have hd : (if pl.isEmpty then [mp] else done) = (if first then [mp] else done) := by
          cases first with
          | true => rw [hf1 rfl]; simp
          | false =>
            have hne : pl.isEmpty = false := by
              cases pl with
              | nil => exact absurd rfl (hf2 rfl)
              | cons a t => rfl
            simp [hne]
        rw [hd] at this
        simpa [List.reverse_cons, List.append_assoc] using this

/-- the generated domain of masses, with positive intermediate masses, is a `MomChain` -/
theorem momChain_of_domain (m0 : ℝ) (t : List ℝ) : ∀ (r1 : ℝ) (ms : List ℝ) (mn sm : ℝ),
    sm = t.sum → InDomainAux m0 (r1 :: t) ms mn sm → mn + r1 ≤ m0 - sm → (∀ m ∈ ms, 0 < m) → 0 < m0 →
    MomChain m0 mn ms (r1 :: t) := by
  induction t with
  | nil =>
    intro r1 ms mn sm hsm hdom hab _ hm0
    cases ms with
    | cons m ms' => simp [InDomainAux] at hdom
    | nil =>
      have : sm = 0 := by simpa using hsm
      subst this
      exact ⟨hm0, by linarith⟩
  | cons r2 rest ih =>
    intro r1 ms mn sm hsm hdom hab hms hm0
    cases ms with
    | nil => simp [InDomainAux] at hdom
    | cons m ms' =>
      simp only [InDomainAux] at hdom
      obtain ⟨hd1, hd2, hd3⟩ := hdom
      refine ⟨hms m (by simp), hd1, ?_⟩
      apply ih r2 ms' m (sm - r2) (by rw [hsm]; simp) hd3 (by linarith) (fun x hx => hms x (by simp [hx])) hm0

/-! ### `tree_boost` of `ChainGenerator` -/

theorem neg_neg_boostVector (p : V4) : p.neg.boostVector.neg = p.boostVector := by
  simp only [V4.boostVector, V3.neg, V4.neg, neg_div, neg_neg]

mutual
theorem leaves_boostBy (p0 : V4) : ∀ t : PTree, (t.boostBy p0).leaves = t.leaves.map (fun x => p0.neg.restVector x)
  | .leaf p => by simp [PTree.boostBy, PTree.leaves]
  | .node p ch => by simp [PTree.boostBy, PTree.leaves, leavesL_boostByL p0 ch]
theorem leavesL_boostByL (p0 : V4) : ∀ l : List PTree, leavesL (boostByL p0 l) = (leavesL l).map (fun x => p0.neg.restVector x)
  | [] => by simp [boostByL, leavesL]
  | t :: ts => by simp [boostByL, leavesL, leaves_boostBy p0 t, leavesL_boostByL p0 ts]
end

theorem sumV4_append (a b : List V4) : sumV4 (a ++ b) = (sumV4 a).add (sumV4 b) := by
  induction a with
  | nil => simp only [List.nil_append, sumV4_nil, V4.add]; apply V4.ext' <;> simp
  | cons p t ih =>
    simp only [List.cons_append, sumV4_cons, ih, V4.add]
    apply V4.ext' <;> simp only <;> ring

end TfPwaV.PhspR
