import TfPwaV.Proofs.TopologyGraphChain
/-! C14, all n, chain level (part 3): the whole `from_particles` call. Position by position the produced chain
consists of exactly the decays of the tree the graph state denotes (`fromParticles_denotes`); consequences for
`sorted_table` / `topology_id` of such a chain (`Denotes.table`, `Denotes.topologyId`). -/
set_option linter.unusedSectionVars false
namespace TfPwaV.Topology

variable {α : Type} [DecidableEq α]

/-- the generated inner particles `chain{i}_node_{k}` are new: different for different `k`, none of them is the
top particle or a final particle; top is not a final particle and the finals are pairwise different -/
structure NamesOK (mk : Nat → Nat → α) (top : α) (finals : List α) : Prop where
  inj : ∀ i k k', mk i k = mk i k' → k = k'
  neTop : ∀ i k, mk i k ≠ top
  notFinal : ∀ i k, mk i k ∉ finals
  topNotFinal : top ∉ finals
  nodup : finals.Nodup

theorem nodup_map_of_inj_on {β γ : Type} (f : β → γ) (l : List β) (h : l.Nodup)
    (hi : ∀ x ∈ l, ∀ y ∈ l, f x = f y → x = y) : (l.map f).Nodup := by
  induction l with
  | nil => simp
  | cons a l ih =>
    rw [List.nodup_cons] at h
    simp only [List.map_cons, List.nodup_cons, List.mem_map, not_exists, not_and]
    refine ⟨?_, ih h.2 (fun x hx y hy => hi x (List.mem_cons_of_mem _ hx) y (List.mem_cons_of_mem _ hy))⟩
    intro x hx hfx
    have := hi x (List.mem_cons_of_mem _ hx) a List.mem_cons_self hfx
    subst this
    exact h.1 hx

theorem names_nodup {mk : Nat → Nat → α} {top : α} {finals : List α} (hn : NamesOK mk top finals) (i : Nat)
    (t : Tr α) (hl : t.leaves.Perm finals) (hb : t.labels.Nodup) :
    (top :: t.verts.map (nmOf (mk i))).Nodup := by
  have hlv : t.leaves.Nodup := hl.nodup_iff.2 hn.nodup
  rw [List.nodup_cons]
  constructor
  · simp only [List.mem_map, not_exists, not_and]
    intro v hv hvt
    cases v with
    | p a =>
      simp only [nmOf] at hvt; subst hvt
      exact hn.topNotFinal (hl.mem_iff.1 ((t.mem_verts_p _).1 hv))
    | n k => exact hn.neTop i k hvt
  · apply nodup_map_of_inj_on _ _ (t.verts_nodup hb hlv)
    intro x hx y hy hxy
    cases x with
    | p a =>
      cases y with
      | p b => simp only [nmOf] at hxy; rw [hxy]
      | n k =>
        simp only [nmOf] at hxy
        exact absurd (hl.mem_iff.1 ((t.mem_verts_p _).1 hx)) (hxy ▸ hn.notFinal i k)
    | n k =>
      cases y with
      | p b =>
        simp only [nmOf] at hxy
        exact absurd (hl.mem_iff.1 ((t.mem_verts_p _).1 hy)) (hxy ▸ hn.notFinal i k)
      | n k' => simp only [nmOf] at hxy; rw [hn.inj i k k' hxy]

/-- chain `c` consists of exactly the decays of the (inner-vertex-labelled) tree `T` hanging under `top`, the
inner vertex `node_k` being the particle `mk' k`, the vertex below `top` merged into `top`; all vertices are
pairwise different particles; `T` has at least two leaves. -/
structure Denotes (mk' : Nat → α) (top : α) (T : Tr α) (c : Chain α) : Prop where
  isNode : ∃ k l r, T = Tr.node k l r
  verts : (T.chainTree mk' top).verts.Nodup
  rep : Rep c (T.chainTree mk' top)

theorem chainsFrom_denote (mk : Nat → Nat → α) (top : α) (gts : List (Graph α × Tr α)) (i : Nat)
    (H : ∀ gt ∈ gts, gt.1.edges.Perm (gt.2.hang (Node.p top)) ∧ (∃ k l r, gt.2 = Tr.node k l r) ∧
      ∀ j, (top :: gt.2.verts.map (nmOf (mk j))).Nodup) :
    ∃ cs, allSome (chainsFrom mk top i (gts.map Prod.fst)) = some cs ∧ cs.length = gts.length ∧
      ∀ j (h1 : j < cs.length) (h2 : j < gts.length), Denotes (mk (i + j)) top gts[j].2 cs[j] := by
  induction gts generalizing i with
  | nil => exact ⟨[], rfl, rfl, fun j h1 => absurd h1 (by simp)⟩
  | cons gt gts ih =>
    obtain ⟨hp, ⟨k, l, r, hT⟩, hnm⟩ := H gt List.mem_cons_self
    obtain ⟨cs, hcs, hlen, hden⟩ := ih (i + 1) (fun x hx => H x (List.mem_cons_of_mem _ hx))
    have hnm' := hnm i
    rw [hT] at hp hnm'
    obtain ⟨hv, c, hc, hrep⟩ := getDecayChain_rep (mk i) top gt.1 k l r hp hnm'
    refine ⟨c :: cs, ?_, by simp [hlen], ?_⟩
    · simp only [List.map_cons, chainsFrom, hc, allSome, hcs, Option.map_some]
    · intro j h1 h2
      cases j with
      | zero =>
        simp only [List.getElem_cons_zero, Nat.add_zero]
        rw [hT]
        exact ⟨⟨k, l, r, rfl⟩, hv, hrep⟩
      | succ j =>
        simp only [List.getElem_cons_succ]
        have := hden j (by simpa using h1) (by simpa using h2)
        have e : i + 1 + j = i + (j + 1) := by omega
        rw [e] at this
        exact this

/-- ★ `from_particles`, every n ≥ 2: the call returns, and the i-th chain consists of exactly the decays of the
i-th tree of the enumeration (inner particles `chain{i}_node_{k}`). -/
theorem fromParticles_denotes (mk : Nat → Nat → α) (top f : α) (fs : List α) (hfs : fs ≠ [])
    (hn : NamesOK mk top (f :: fs)) :
    ∃ cs, fromParticles mk top (f :: fs) = some cs ∧
      cs.length = (enumGT top (Graph.empty.addEdge (.p top) (.p f)) (Tr.leaf f) fs).length ∧
      ∀ j (h1 : j < cs.length) (h2 : j < (enumGT top (Graph.empty.addEdge (.p top) (.p f)) (Tr.leaf f) fs).length),
        Denotes (mk j) top (enumGT top (Graph.empty.addEdge (.p top) (.p f)) (Tr.leaf f) fs)[j].2 cs[j] := by
  have hf := List.nodup_cons.1 hn.nodup
  have inv : EnumInv top (Graph.empty.addEdge (.p top) (.p f)) (Tr.leaf f) fs := by
    refine ⟨?_, ?_, ?_, hf.2, ?_, ?_⟩
    · simp [Graph.addEdge, Graph.empty, Tr.hang, Tr.edges, Tr.root]
    · simp [Tr.leaves]
    · intro x hx hm
      simp only [Tr.leaves, List.mem_singleton] at hm
      subst hm; exact hf.1 hx
    · simp [Tr.labels]
    · simp [Tr.labels]
  have H : ∀ gt ∈ enumGT top (Graph.empty.addEdge (.p top) (.p f)) (Tr.leaf f) fs,
      gt.1.edges.Perm (gt.2.hang (Node.p top)) ∧ (∃ k l r, gt.2 = Tr.node k l r) ∧
      ∀ j, (top :: gt.2.verts.map (nmOf (mk j))).Nodup := by
    intro gt hgt
    obtain ⟨i1, i2⟩ := enumGT_inv top fs _ _ inv gt hgt
    have i2' : gt.2.leaves.Perm (f :: fs) := by simpa [Tr.leaves] using i2
    refine ⟨i1.edges, ?_, fun j => names_nodup hn j gt.2 i2' i1.labelsNodup⟩
    cases hgt2 : gt.2 with
    | leaf a =>
      exfalso
      rw [hgt2] at i2'
      have := i2'.length_eq
      simp only [Tr.leaves, List.length_cons, List.length_nil] at this
      cases fs with
      | nil => exact hfs rfl
      | cons _ _ => simp at this
    | node k l r => exact ⟨k, l, r, rfl⟩
  obtain ⟨cs, h1, h2, h3⟩ := chainsFrom_denote mk top _ 0 H
  refine ⟨cs, ?_, h2, ?_⟩
  · simp only [fromParticles]
    rw [← enumGT_fst top fs _ (Tr.leaf f)]
    exact h1
  · intro j hj1 hj2
    have := h3 j hj1 hj2
    rwa [Nat.zero_add] at this

/-! ### what `sorted_table` and `topology_id` compute on such a chain -/

theorem Tr.chainTree_leaves (mk' : Nat → α) (top : α) (T : Tr α) : (T.chainTree mk' top).leaves = T.leaves := by
  cases T with
  | leaf a => rfl
  | node k l r => simp only [Tr.chainTree, NT.leaves, Tr.leaves, Tr.nt_leaves]

theorem Tr.chainTree_groups (mk' : Nat → α) (top : α) (T : Tr α) :
    (T.chainTree mk' top).subs.map NT.leaves = T.groups := by
  cases T with
  | leaf a => rfl
  | node k l r =>
    simp only [Tr.chainTree, NT.subs, Tr.groups, List.map_cons, List.map_append, Tr.nt_groups, NT.leaves,
      Tr.leaves, Tr.nt_leaves]

section table
variable [LT α] [DecidableLT α]

/-- ★ `sorted_table` of a chain denoting `T`: returns; one entry per vertex of the tree; the value of a vertex is
the sorted list of the final particles below it. -/
theorem Denotes.table (hα : LinLt α) {mk' : Nat → α} {top : α} {T : Tr α} {c : Chain α}
    (h : Denotes mk' top T c) :
    ∃ t, sortedTable c = some t ∧ t.keys.Nodup ∧
      t.Perm ((T.chainTree mk' top).subs.map fun s => (s.name, isort s.leaves)) := by
  obtain ⟨k, l, r, rfl⟩ := h.isNode
  exact sortedTable_rep hα h.rep h.verts

/-- ★ `topology_id` (either flag) of a chain denoting `T` is the sorted list of the sorted leaf groupings of `T`
mapped through the key. -/
theorem Denotes.topologyId {κ : Type} [DecidableEq κ] [LT κ] [DecidableLT κ] (hα : LinLt α) (hκ : LinLt κ)
    (key : α → κ) {mk' : Nat → α} {top : α} {T : Tr α} {c : Chain α} (h : Denotes mk' top T c) :
    topologyId key c = some (isort (T.groups.map fun g => (isort g).map key)) := by
  obtain ⟨t, ht, _, hp⟩ := h.table hα
  simp only [Topology.topologyId, groupings, ht, Option.map_some, Option.some.injEq]
  rw [isort_eq_iff_perm hκ.list]
  refine (hp.map _).trans ?_
  rw [← Tr.chainTree_groups mk' top T]
  simp only [List.map_map, Function.comp_def]
  exact List.Perm.refl _

end table

/-! ### the chain-level tree statement -/

/-- chain `c` is a binary tree rooted at `top` whose leaves are exactly `finals`: every decay has two daughters,
no particle decays twice or has two mothers, the only particle that is nobody's daughter is `top`, the particles
that never decay are the finals, and the bottom-up table of `sorted_table` exists (so there is no cycle and
everything resolves to final particles), has one entry per vertex (n leaves, n-1 mothers), gives `[f]` for a final
`f`, all finals (sorted) for `top`, and for every decay the sorted union of the daughters' entries. -/
structure IsTreeChain [LT α] [DecidableLT α] (top : α) (finals : List α) (c : Chain α) : Prop where
  two : ∀ d ∈ c, d.outs.length = 2
  coresNodup : (coreList c).Nodup
  outsNodup : (outList c).Nodup
  topIs : topOf c = some top
  finalsAre : finalsOf c = isort finals
  table : ∃ t, sortedTable c = some t ∧ t.keys.Nodup ∧ t.length + 1 = 2 * finals.length ∧
    t.get? top = some (isort finals) ∧ (∀ f ∈ finals, t.get? f = some [f]) ∧
    ∀ d ∈ c, t.get? d.core = some (isort (d.outs.flatMap fun o => (t.get? o).getD []))

theorem Denotes.treeChain [LT α] [DecidableLT α] (hα : LinLt α) {mk' : Nat → α} {top : α} {T : Tr α}
    {c : Chain α} (h : Denotes mk' top T c) (finals : List α) (hl : T.leaves.Perm finals) :
    IsTreeChain top finals c := by
  obtain ⟨t, ht, hk, hp⟩ := h.table hα
  obtain ⟨k, l, r, rfl⟩ := h.isNode
  have hv := h.verts
  have hrep := h.rep
  have hlv : (NT.node top (l.nt mk') (r.nt mk')).leaves.Perm finals := by
    have := Tr.chainTree_leaves mk' top (Tr.node k l r)
    simp only [Tr.chainTree] at this
    rw [this]; exact hl
  simp only [Tr.chainTree] at hv hrep hp
  have hfin := hrep.finals_perm hv
  have hget : ∀ s, s ∈ (NT.node top (l.nt mk') (r.nt mk')).subs → t.get? s.name = some (isort s.leaves) := by
    intro s hs
    rw [← Dict.mem_iff_get _ hk, hp.mem_iff]
    exact List.mem_map.2 ⟨s, hs, rfl⟩
  refine ⟨?_, hrep.cores, hrep.outList_nodup hv, hrep.topOf hv, ?_, t, ht, hk, ?_, ?_, ?_, ?_⟩
  · intro d hd
    obtain ⟨l1, r1, _, hp1⟩ := hrep.sound d hd
    simpa using hp1.length_eq
  · simp only [finalsOf]
    rw [isort_eq_iff_perm hα]
    exact hfin.trans hlv
  · have h1 := hp.length_eq
    have h2 := NT.subs_length (NT.node top (l.nt mk') (r.nt mk'))
    rw [List.length_map] at h1
    rw [h1, h2, hlv.length_eq]
  · have := hget _ (NT.self_mem_subs _)
    simp only [NT.name] at this
    rw [this]
    congr 1
    rw [isort_eq_iff_perm hα]
    exact hlv
  · intro f hf
    have := hget (.leaf f) ((NT.leaf_mem_subs _ _).2 (hlv.mem_iff.2 hf))
    simpa [NT.name, NT.leaves, isort_singleton] using this
  · intro d hd
    obtain ⟨l1, r1, hn, hp1⟩ := hrep.sound d hd
    have ch := NT.children_mem hn
    have := hget _ hn
    simp only [NT.name] at this
    rw [this]
    congr 1
    rw [isort_eq_iff_perm hα]
    refine List.Perm.trans ?_ (List.Perm.flatMap_right _ hp1).symm
    simp only [List.flatMap_cons, List.flatMap_nil, List.append_nil, hget l1 ch.1, hget r1 ch.2,
      Option.getD_some, NT.leaves]
    exact (List.Perm.append (isort_perm _) (isort_perm _)).symm

/-- equal `topology_id`s (key = the particle itself) ⇒ same sets of final-state groupings -/
theorem sameTopo_of_ids_eq [LT α] [DecidableLT α] (hα : LinLt α) (T₁ T₂ : Tr α)
    (h : isort (T₁.groups.map fun g => (isort g).map fun x : α => x)
       = isort (T₂.groups.map fun g => (isort g).map fun x : α => x)) : T₁.SameTopo T₂ := by
  have hp := (isort_eq_iff_perm hα.list _ _).1 h
  have key : ∀ (A B : Tr α), (A.groups.map fun g => (isort g).map fun x : α => x).Perm
      (B.groups.map fun g => (isort g).map fun x : α => x) → ∀ S, A.IsGroup S → B.IsGroup S := by
    intro A B hAB S hS
    rw [Tr.isGroup_iff_groups] at hS ⊢
    obtain ⟨g, hg, hSg⟩ := hS
    have : ((isort g).map fun x : α => x) ∈ (B.groups.map fun g => (isort g).map fun x : α => x) :=
      hAB.mem_iff.1 (List.mem_map.2 ⟨g, hg, rfl⟩)
    obtain ⟨g', hg', e⟩ := List.mem_map.1 this
    simp only [List.map_id'] at e
    refine ⟨g', hg', fun x => ?_⟩
    rw [hSg x, ← (isort_perm g).mem_iff, ← e, (isort_perm g').mem_iff]
  exact fun S => ⟨key T₁ T₂ hp S, key T₂ T₁ hp.symm S⟩

end TfPwaV.Topology
