import Mathlib.Analysis.Real.Sqrt
import Mathlib.Analysis.SpecialFunctions.Trigonometric.Inverse
import Mathlib.Analysis.SpecialFunctions.Trigonometric.Arctan
import Mathlib.Analysis.SpecialFunctions.Complex.Arg
import Mathlib.Analysis.SpecialFunctions.Log.Basic
/-! Scalar vocabulary for templates instantiated at `ℝ` (for proofs). -/
namespace TfPwaV.ScalarR
noncomputable section
abbrev K := ℝ
def ksqrt (x : K) : K := Real.sqrt x
def ksin (x : K) : K := Real.sin x
def kcos (x : K) : K := Real.cos x
def ktan (x : K) : K := Real.tan x
def katan (x : K) : K := Real.arctan x
def katan2 (y x : K) : K := Complex.arg ⟨x, y⟩
def kacos (x : K) : K := Real.arccos x
def kexp (x : K) : K := Real.exp x
def klog (x : K) : K := Real.log x
def kabs (x : K) : K := |x|
def kpi : K := Real.pi
def kofNat (n : Nat) : K := (n : ℝ)
end
end TfPwaV.ScalarR
