import TfPwaV.Proofs.AxesIndBRoute
import TfPwaV.Props.C01h
/-!
Helper lemmas for `Props/C01i.lean`, part 4: the D-matrix as a representation of SU(2) ELEMENTS (spins `2j ≤ 8`).

* `DE N x` — the matrix `D_matrix_conj` at the Euler angles of `x` read so that `DE N (Rz(α)Ry(β)Rz(γ)) = DConj N α β γ`;
  `DE_mul` (homomorphism on SU(2)), `DE_rotZ` (diagonal phase), `DE_negOne` (`(−1)^{2j}`), `DE_unitary`.
* `C02.codeD N R = DConj N (alpha, beta, gamma)` with `(alpha, beta, gamma) = get_euler_angle(R)` — the D-function
  `DecayChain.get_amp` inserts for an alignment element `R` — equals `DE N (rev R)` (`codeD_eq_DE`; `rev` = `C02.rev`, the
  anti-automorphism `x ↦ σ_z xᵀ σ_z`); `codeD_rotZ`, `codeD_negOne`, `codeD_one`, `codeD_change`.
* `align_change` — `M_ref'·U = W_ref·M_ref`, `M_k'·U = W_k·M_k` ⇒ `M_ref'·M_k'⁻¹ = W_ref·(M_ref·M_k⁻¹)·W_k⁻¹`.
-/
open Matrix BigOperators
open TfPwaV.ScalarR
namespace TfPwaV.AxesInd
open TfPwaV.SU2R TfPwaV.AlignR TfPwaV.KinR TfPwaV.AngleR TfPwaV.SL2CR TfPwaV.LorentzSLR TfPwaV.CascadeR TfPwaV.RouteRestR
open TfPwaV.C12 TfPwaV.C02 TfPwaV.C01 TfPwaV.C11 TfPwaV.FrameAlg

theorem rotY_zero : rotY 0 = M2.one := by
  unfold rotY ksin kcos
  ext <;> simp [M2.one, Cx.one, Cx.zero, Cx.neg]

theorem rot3_zero : rot3 0 0 0 = M2.one := by
  unfold rot3
  rw [rotZ_zero, rotY_zero, M2.one_mul, M2.one_mul]

theorem isSU2_rot3 (α β γ : ℝ) : IsSU2 (rot3 α β γ) := by
  rw [rot3_eq_ofEuler]; exact ofEuler_isSU2 _ _ _

/-- the D-matrix of the unit element is the unit matrix (all spins `2j ≤ 8`) -/
theorem DConj_zero (N : ℕ) (hN : N ≤ 8) : DConj N 0 0 0 = 1 := by
  have hc : rot3 0 0 0 = (rot3 0 0 0).mul (rot3 0 0 0) := by rw [rot3_zero, M2.one_mul]
  have hX := DConj_compose N hN 0 0 0 0 0 0 0 0 0 hc
  have hU := C01.D_conj_unitary N hN 0 0 0
  calc DConj N 0 0 0 = (star (DConj N 0 0 0) * DConj N 0 0 0) * DConj N 0 0 0 := by rw [hU, Matrix.one_mul]
    _ = star (DConj N 0 0 0) * (DConj N 0 0 0 * DConj N 0 0 0) := by rw [Matrix.mul_assoc]
    _ = star (DConj N 0 0 0) * DConj N 0 0 0 := by rw [← hX]
    _ = 1 := hU

/-- Euler angles that describe the SAME element of SU(2) give the same D-matrix -/
theorem DConj_of_element (N : ℕ) (hN : N ≤ 8) (α β γ α' β' γ' : ℝ) (h : rot3 α' β' γ' = rot3 α β γ) :
    DConj N α' β' γ' = DConj N α β γ := by
  have hc : rot3 α' β' γ' = (rot3 0 0 0).mul (rot3 α β γ) := by rw [rot3_zero, M2.one_mul, h]
  rw [DConj_compose N hN 0 0 0 α β γ α' β' γ' hc, DConj_zero N hN, Matrix.one_mul]

/-- the D-matrix of an element of SU(2): `D_matrix_conj` at Euler angles `(a, b, c)` with `Rz(a)·Ry(b)·Rz(c) = x` -/
noncomputable def DE (N : ℕ) (x : M2) : Matrix (Fin (N + 1)) (Fin (N + 1)) ℂ :=
  DConj N (eulerOf x).gamma (eulerOf x).beta (eulerOf x).alpha

theorem rot3_eulerOf' (x : M2) (hx : IsSU2 x) : rot3 (eulerOf x).gamma (eulerOf x).beta (eulerOf x).alpha = x := by
  rw [rot3_eq_ofEuler]; exact euler_roundtrip x hx

theorem DE_rot3 (N : ℕ) (hN : N ≤ 8) (α β γ : ℝ) : DE N (rot3 α β γ) = DConj N α β γ :=
  DConj_of_element N hN _ _ _ _ _ _ (rot3_eulerOf' _ (isSU2_rot3 α β γ))

/-- **the D-matrices are a representation of SU(2)** (`2j ≤ 8`) -/
theorem DE_mul (N : ℕ) (hN : N ≤ 8) (x y : M2) (hx : IsSU2 x) (hy : IsSU2 y) : DE N (x.mul y) = DE N x * DE N y := by
  unfold DE
  apply DConj_compose N hN
  rw [rot3_eulerOf' _ (isSU2_mul x y hx hy), rot3_eulerOf' x hx, rot3_eulerOf' y hy]

theorem DE_unitary (N : ℕ) (hN : N ≤ 8) (x : M2) : star (DE N x) * DE N x = 1 := C01.D_conj_unitary N hN _ _ _

theorem rotZ_eq_rot3 (θ : ℝ) : rotZ θ = rot3 θ 0 0 := by
  unfold rot3
  rw [rotY_zero, rotZ_zero, M2.mul_one, M2.mul_one]

/-- `Rotation_z(θ)` is represented by the diagonal phase `e^{i m θ}` -/
theorem DE_rotZ (N : ℕ) (hN : N ≤ 8) (θ : ℝ) : DE N (rotZ θ) = diagonal (FrameAlg.phase N θ) := by
  rw [rotZ_eq_rot3, DE_rot3 N hN]
  ext i k
  have h := DConj_alpha_shift N 0 θ 0 0 i k
  rw [zero_add] at h
  rw [h, DConj_zero N hN, diagonal_apply, one_apply]
  split_ifs <;> simp

/-- a full turn multiplies every row of the D-matrix by `(−1)^{2j}` -/
theorem phase_two_pi (N : ℕ) (θ : ℝ) (i : Fin (N + 1)) :
    FrameAlg.phase N (θ + 2 * Real.pi) i = (-1 : ℂ) ^ N * FrameAlg.phase N θ i := by
  unfold FrameAlg.phase hel
  have e : (((((i : ℕ) : ℝ) - (N : ℝ) / 2) * (θ + 2 * Real.pi) : ℝ) : ℂ) * Complex.I =
      ((((((i : ℕ) : ℝ) - (N : ℝ) / 2) * θ : ℝ) : ℂ) * Complex.I + ((i : ℕ) : ℂ) * (2 * Real.pi * Complex.I)) +
        -((N : ℂ) * (Real.pi * Complex.I)) := by
    push_cast; ring
  rw [e, Complex.exp_add, Complex.exp_add, Complex.exp_nat_mul_two_pi_mul_I, mul_one, Complex.exp_neg,
    Complex.exp_nat_mul, Complex.exp_pi_mul_I]
  have : ((-1 : ℂ) ^ N)⁻¹ = (-1 : ℂ) ^ N := by
    rw [← inv_pow]; norm_num
  rw [this]; ring

/-- the central element `−1` is represented by `(−1)^{2j}`: `+1` for bosons, `−1` for fermions -/
theorem DE_negOne (N : ℕ) (hN : N ≤ 8) : DE N negOne = ((-1 : ℂ) ^ N) • (1 : Matrix (Fin (N + 1)) (Fin (N + 1)) ℂ) := by
  rw [← rotZ_two_pi, DE_rotZ N hN]
  ext i k
  have h := phase_two_pi N 0 i
  rw [zero_add] at h
  have h0 : FrameAlg.phase N 0 i = 1 := by unfold FrameAlg.phase; simp
  rw [h0, mul_one] at h
  rw [diagonal_apply, Matrix.smul_apply, one_apply, h]
  split_ifs <;> simp

/-! ### the alignment D-function -/

theorem rev_rot3 (α β γ : ℝ) : rev (rot3 α β γ) = rot3 γ β α := by
  unfold rot3
  rw [rev_mul, rev_mul, rev_rotZ, rev_rotZ, rev_rotY, su2_mul_assoc]

theorem rev_isSU2 (a : M2) (h : IsSU2 a) : IsSU2 (rev a) := by
  obtain ⟨⟨ar, ai⟩, x01, ⟨cr, ci⟩, x11⟩ := a
  obtain ⟨h11, h01, hn⟩ := h
  simp only at h11 h01 hn
  subst h11 h01
  refine ⟨?_, ?_, ?_⟩
  · simp [rev]
  · ext <;> simp [rev, Cx.conj, Cx.neg]
  · simp only [rev, Cx.conj, Cx.normSq, Cx.neg] at hn ⊢
    linarith

theorem rev_negOne : rev negOne = negOne := by
  ext <;> simp [rev, negOne, Cx.neg, Cx.zero]

theorem rev_one : rev M2.one = M2.one := by
  ext <;> simp [rev, M2.one, Cx.neg, Cx.zero, Cx.one]

/-- `C02.codeD N R` = `D_matrix_conj` at `get_euler_angle(R)`, the D-function `DecayChain.get_amp` inserts for an alignment
element `R`, is the representation matrix of `rev R` -/
theorem codeD_eq_DE (N : ℕ) (hN : N ≤ 8) (R : M2) (hR : IsSU2 R) : codeD N R = DE N (rev R) := by
  unfold codeD
  rw [← DE_rot3 N hN, C02.rot3_eulerOf R hR]

theorem codeD_rotZ (N : ℕ) (hN : N ≤ 8) (θ : ℝ) : codeD N (rotZ θ) = diagonal (FrameAlg.phase N θ) := by
  rw [codeD_eq_DE N hN _ (isSU2_rotZ θ), rev_rotZ, DE_rotZ N hN]

theorem codeD_negOne (N : ℕ) (hN : N ≤ 8) :
    codeD N negOne = ((-1 : ℂ) ^ N) • (1 : Matrix (Fin (N + 1)) (Fin (N + 1)) ℂ) := by
  rw [codeD_eq_DE N hN _ isSU2_negOne, rev_negOne, DE_negOne N hN]

theorem isSU2_one : IsSU2 M2.one :=
  ⟨by simp [M2.one, Cx.one, Cx.conj], by ext <;> simp [M2.one, Cx.zero, Cx.conj, Cx.neg],
    by simp [M2.one, Cx.one, Cx.zero, Cx.normSq]⟩

theorem codeD_one (N : ℕ) (hN : N ≤ 8) : codeD N M2.one = 1 := by
  rw [codeD_eq_DE N hN _ isSU2_one, rev_one, ← rot3_zero, DE_rot3 N hN, DConj_zero N hN]

/-- **the alignment D-function under `R' = W_ref·R·W_k⁻¹`**: `codeD(R') = codeD(W_k⁻¹) · codeD(R) · codeD(W_ref)` — the chain's own
element acts on the ROW (contracted) index, the reference chain's element on the COLUMN (external) index. -/
theorem codeD_change (N : ℕ) (hN : N ≤ 8) (R Wr Wk : M2) (hR : IsSU2 R) (hWr : IsSU2 Wr) (hWk : IsSU2 Wk) :
    codeD N ((Wr.mul R).mul Wk.inv) = codeD N Wk.inv * codeD N R * codeD N Wr := by
  have hWki := isSU2_inv _ hWk
  rw [codeD_mul N hN _ _ (isSU2_mul _ _ hWr hR) hWki, codeD_mul N hN _ _ hWr hR, Matrix.mul_assoc]

/-- **alignment elements**: `M_ref'·U = W_ref·M_ref` and `M_k'·U = W_k·M_k` ⇒ `M_ref'·M_k'⁻¹ = W_ref·(M_ref·M_k⁻¹)·W_k⁻¹`
(`det U = 1`; `U` cancels) -/
theorem align_change (Mr Mr' Mk Mk' U Wr Wk : M2) (dU : U.det = Cx.one)
    (hr : Mr'.mul U = Wr.mul Mr) (hk : Mk'.mul U = Wk.mul Mk) :
    Mr'.mul Mk'.inv = ((Wr.mul (Mr.mul Mk.inv))).mul Wk.inv := by
  -- Mk' = Wk Mk U⁻¹
  have e1 : Mk' = (Wk.mul Mk).mul U.inv := by
    rw [← hk, su2_mul_assoc, (su2_inv U dU).2, M2.mul_one]
  have e2 : Mr' = (Wr.mul Mr).mul U.inv := by
    rw [← hr, su2_mul_assoc, (su2_inv U dU).2, M2.mul_one]
  have dUi : U.inv.det = Cx.one := by
    have := det_mul U.inv U
    rw [(su2_inv U dU).1, dU] at this
    have h1 : (M2.one : M2).det = Cx.one := M2.det_one
    rw [h1] at this
    rw [this]
    ext <;> simp [Cx.mul, Cx.one]
  have e3 : Mk'.inv = (U.mul Mk.inv).mul Wk.inv := by
    rw [e1, M2.inv_mul, M2.inv_mul]
    have : U.inv.inv = U := by ext <;> simp [M2.inv, Cx.neg]
    rw [this, su2_mul_assoc]
  rw [e2, e3]
  simp only [su2_mul_assoc]
  rw [inv_mul_cancel_left U _ dU]

end TfPwaV.AxesInd
