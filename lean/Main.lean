import TfPwaV.Model.LS
import TfPwaV.Gen.KinF
import TfPwaV.Gen.DalitzF
import TfPwaV.Gen.SU2F
import TfPwaV.Model.WignerF
/-! Line-protocol driver: one op per input line, one answer line per op. -/
open TfPwaV

def dispatch (ws : List String) : String :=
  match ws with
  | "C13" :: rest => (LS.handle rest).getD "bad-op"
  | "C12" :: rest => (WignerF.handle rest).getD "bad-op"
  | "C11" :: rest => (KinF.handle rest).getD "bad-op"
  | "C12s" :: rest => (SU2F.handle rest).getD "bad-op"
  | "C11d" :: rest => (DalitzF.handle rest).getD "bad-op"
  | _ => "bad-op"

partial def loop (h : IO.FS.Stream) (out : IO.FS.Stream) : IO Unit := do
  let line ← h.getLine
  if line.isEmpty then return ()
  let ws := (line.trimAscii.toString.splitOn " ").filter (· ≠ "")
  out.putStrLn (dispatch ws)
  loop h out

def main : IO Unit := do
  loop (← IO.getStdin) (← IO.getStdout)
