-- Root of the `TfPwaV` library: hand-written models (Mathlib-free).
import TfPwaV.Model.LS
