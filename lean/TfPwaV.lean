-- Root of the `TfPwaV` library: hand-written models (Mathlib-free).
import TfPwaV.Model.LS
import TfPwaV.Model.Util
import TfPwaV.Model.ScalarF
import TfPwaV.Model.ScalarQ
import TfPwaV.Model.Wigner
import TfPwaV.Model.WignerF
